"""Regenerates /verif/MANIFEST.json from the table below (keeps the file valid at all times)."""
import json
import os

VERIF = os.path.dirname(os.path.dirname(os.path.abspath(__file__)))

CHECKS = {
    'C01': dict(
        category='exploration', design_ref='DESIGN.md 4/C01',
        technique='bounded-exhaustive enumeration of all built-in value trees <= N nodes over an adversarial leaf alphabet x all widths 1..L+3 x ribbons x indents x key sorting, each output evaluated and compared by typed structural equality; deep-chain families enumerated completely',
        text='Every value tree up to the node bound is printed by the real pformat at every width from 1 to its one-line length + 3 (plus 79 and 200), with every ribbon <= width for small trees, indents and both key orders; each output is parsed, evaluated and compared with typed equality (float bit patterns, bool vs int, dict order). Deterministic deep-chain families (every wrapper recipe of length <= 2 to depth 25 around every leaf) replace the random larger values of the quantifier. The known counter-examples sit at width 1 or ~20 levels deep, which only exhaustive sweeps of the width axis and the scaled families reach.',
        note='trusted: CPython ast/eval, typed_eq in mc/oracles.py; bound: trees <= 3 nodes complete + a seed-rotated slice of 4 nodes (quick), <= 4 nodes complete + 5 nodes over a reduced leaf set (thorough); values outside the alphabets are not covered'),
    'C02': dict(
        category='exploration', design_ref='DESIGN.md 4/C02',
        technique='bounded-exhaustive enumeration of all str/bytes over an adversarial alphabet up to a length bound and of all chunk sequences, x six placements x every width 1..len+14; token-level oracle on the adjacent STRING tokens; direct exhaustive sweep of the splitter and escaper',
        text='All strings and byte strings over {quote, double quote, backslash, space, newline, letter, non-ASCII, NUL} up to the length bound, all sequences of chunks (up to 55 columns, so every branch of the splitter is reached), a code-point sweep and long scaled families are printed in six placements at every width from 1 up; the literal must be a run of adjacent STRING tokens with the right prefix, no empty piece, and concatenate to exactly the value. The splitter and escaper are additionally swept directly for every string x max_len 1..8 x both quotes.',
        note='trusted: tokenize / ast.literal_eval; the direct splitter sub-check is skipped (and reported) if the helpers are not importable; strings outside the alphabets are not covered'),
    'C07': dict(
        category='exploration', design_ref='DESIGN.md 4/C07',
        technique='exhaustive cross product of per-type boundary grids (timedelta, date, datetime x 10 tzinfo kinds x fold, time, collections, mappingproxy, UUID, enums, SimpleNamespace, namedtuples, partial, exceptions, pure paths, timezones, pytz zones) x five placements x every width 1..L+3 x ribbons; output evaluated and compared per type; totality sweep of the built-in printers over all value trees <= 3 nodes',
        text='Every instance of the grids is printed at top level, as list element, dict value, dict key and call argument at every width up to its one-line length (capped) with three ribbons; there must be no exception and no fallback warning, and the evaluated text must reconstruct an equal object of the same type (field-wise where equality is identity). A printer that raises is silently replaced by repr plus a warning, which pytest does not fail on - the timezone printer did exactly that on every input - so only a check that records warnings for every instance notices.',
        note='trusted: CPython eval and per-type equality in eq(); names of fixed-offset zones are not required to survive because timezone equality ignores them; composite/zero Flag pseudo-members are outside the domain; grids are boundary values, not all values'),
    'C08': dict(
        category='exploration', design_ref='DESIGN.md 4/C08',
        technique='exhaustive enumeration of a subclass family (plain / __repr__+__str__ overriding / IntEnum) of the nine built-in bases x per-base value alphabets x nine placements x every width 1..L+3; output evaluated and compared with class-aware typed equality',
        text='Every instance of the generated subclass family is printed at top level, next to a 30-column sibling, after short and long dict keys, as call argument, dict key and set element, at every width from 1 to its one-line length + 3; evaluation must give back the same subclass around an equal base value. The failing regions need a coincidence (too wide for the rest of the line yet fitting a line of its own; a subclass overriding __repr__) that only a full width sweep next to fixed-length siblings reaches.',
        note='trusted: CPython eval, typed_eq/canon in mc/oracles.py; subclass families and value alphabets are small by design'),
    'C09': dict(
        category='exploration', design_ref='DESIGN.md 4/C09',
        technique='exhaustive enumeration of all placements of comment / trailing_comment / both on the nodes of 24 value shapes x an adversarial text alphabet (newlines, blank lines, quotes, #, brackets, 100-column words) x widths; AST equality with the uncommented print and word-subsequence check on the COMMENT tokens',
        text='For every shape every assignment of {none, comment, trailing comment, both} to its nodes is printed, with all texts on single-comment placements and all text pairs on two-comment placements, at 42 (quick) / 63 (thorough) widths, and every placement again under sort_dict_keys, max_seq_len, depth and indent settings against the uncommented print under the same settings. The output must parse to exactly the syntax tree of the uncommented value (so a comma sliding into a comment, or a comment line swallowing an element, is a structural difference), no printer may fall back to repr, and every word of every comment must occur in order inside COMMENT tokens. The suite only checks that commented values do not raise.',
        note='trusted: CPython ast/tokenize; trailing comments are attached only to the types whose printers accept them; shapes are small by design'),
    'C10': dict(
        category='exploration', design_ref='DESIGN.md 4/C10',
        technique='exhaustive enumeration of container trees (10 kinds, lengths 0..5, three levels) x N in {1..5, None, 10**6} x widths x key sorting; output evaluated against a reference truncation and every truncation notice attributed to its container through AST spans',
        text='Every container tree of the generator is printed with every N; the evaluated output must be typed-equal to the reference truncation (first min(len, N) elements in iteration order at every level), each notice must sit in exactly the container that was longer than N and state len - N, and max_seq_len=None must equal a limit larger than every container without any warning. Nested truncation, exact counts and the documented None value are for-all statements no pinned test touches.',
        note='trusted: CPython ast spans and eval; reference truncation of about 15 lines; lengths > 5 only through the 150/151/1000/1001 families'),
    'C11': dict(
        category='exploration', design_ref='DESIGN.md 4/C11',
        technique='exhaustive enumeration of labelled ordered trees (all shapes <= n nodes x all container-kind assignments, unique scalar leaves) x every depth 0..height+3 and None; expected AST built by cutting the unlimited AST at the reference nesting level',
        text='For every tree shape up to the node bound and every assignment of 14 container kinds (built-ins, dicts with int/str/bytes/tuple keys, subclasses, a pretty_call user type with and without a hugged argument) the output at every depth is compared, as an AST, with the unlimited output cut at the reference level; above the height the text must equal depth=None. No test passes depth at all.',
        note='trusted: reference level computation (the hugged sole argument keeps its call level, per the anchors); str/bytes dict keys are cut one level late - recorded as known finding C11/str-key-one-level-late and tolerated only in exactly that form'),
    'C03': dict(
        category='exploration', design_ref='DESIGN.md 4/C03',
        technique='exhaustive sweep of every corpus value (union of the other generators: built-in trees, stdlib instances, subclass instances, commented trees, call-style user types, dataclass/attrs instances) over every width 1..L+3 x ribbons x indents; AST of each output compared with the AST at the reference configuration; indentation multiple check',
        text='For every value of the shared corpus the output at every width from 1 to its one-line length + 3 (capped, plus 79 and 200), three ribbons per width and three (quick) or all eight (thorough) indents must parse to exactly the syntax tree obtained at the reference configuration, and every line must be indented by a multiple of the indent. Equality with one reference is equality between all pairs of configurations. A layout branch that drops, duplicates or reorders an element only when a group breaks at one particular width is invisible to tests that print at 79/71/4 only.',
        note='trusted: CPython ast; corpus bounds are those of the contributing generators (trees <= 2 nodes quick / 3 thorough, thinned stdlib grids)'),
    'C04': dict(
        category='model_checking', design_ref='DESIGN.md 4/C04',
        technique='explicit enumeration of all document terms <= K nodes x all (width, ribbon) pairs x both strategies on the real engine; membership of each observed SDoc stream in the fully enumerated layout set of the reference semantics',
        text='Bounded-exhaustive model checking of the real layout engine against an executable denotational semantics of the combinator algebra: every document up to the node bound, every integer width/ribbon pair up to the flat length + 2 and both strategies are executed, and each output must be a member of the enumerated layout set. A for-all statement over documents and configurations is exactly what exhaustive small-scope enumeration decides; every explored trace is an implementation trace.',
        note='trusted: the reference semantics in mc/docalg.py (about 100 lines, written from the property statement); bound: documents <= 5 (quick) / 6 (thorough) nodes over 9 leaves (incl. a double-width character), 8 unary combinators (incl. a negative nest), flat_choice, concat, fill; plus seven contexts of 6-11 nodes filled with every pair of small terms, a reduced alphabet one node deeper, and a render with non-default newline/separator before every default render; documents outside these spaces are not covered'),
    'C05': dict(
        category='model_checking', design_ref='DESIGN.md 4/C05',
        technique='explicit enumeration of all classic-algebra documents <= K nodes x all (width, ribbon) pairs x both strategies on the real engine; per-group decisions recovered through the enumerated reference layout set; line-length invariant checked for every necessarily-flat group',
        text='Every classic-algebra document up to the node bound is laid out by the real engine at every integer width/ribbon pair; the flat/broken decision of each group is recovered from the output through the reference semantics (flat in every consistent assignment), and for each such group the line it sits on must end within min(width, indentation + ribbon). An off-by-one in the fitting predicate or a wrong ribbon formula shows at width 1 already, which exhaustive small-scope enumeration reaches and pinned examples do not.',
        note='trusted: reference semantics in mc/docalg.py and the decision recovery in mc/checks/_decisions.py; bound: <= 6 nodes (quick) / 7 (thorough) over the classic algebra plus annotate, and scaled documents (one group around 50-700 words on pages up to 2500 columns); fill and user flat_choice are outside the property'),
    'C06': dict(
        category='model_checking', design_ref='DESIGN.md 4/C06',
        technique='same exhaustive enumeration as C05; every necessarily-broken group without a forced break must be justified by a reference linearisation of its continuation (overflow, smart look-ahead overflow, or a later always_break); plus exhaustive width sweep around the one-line length of every corpus value',
        text='For every enumerated document, configuration and strategy, each group that the output proves broken and that contains no forced break must have a justification computed on the reference term (not by calling the implementation predicate). For values, every corpus value whose unbounded rendering is one line of L columns must print as that line at all widths/ribbons in L..L+2, 2L, 200. Eager breaking (off-by-one at exact fit, ribbon applied from the wrong origin) yields valid text that no pinned test notices; the enumeration reaches exact-fit configurations for every small document.',
        note='trusted: reference linearisation in mc/checks/_decisions.py (permissive where the statement is silent: a hoisted always_break later on the line also counts as justification); bound as C05; part 2 also lays the same document out narrow first and then at its one-line width'),
    'C12': dict(
        category='exploration', design_ref='DESIGN.md 4/C12',
        technique='deterministic step counting (sys.monitoring LINE events inside the package) over an enumerated grammar of input families at n, 2n, 4n, 8n; doubling ratio bounded by 8 and enforced as a step budget on the next run',
        text='Every family of the grammar - nestings through each container/call/comment wrapper, flat sequences, long strings with and without break opportunities, strings nested until no width is left, commented nestings, and every wrapper recipe of length <= 2 (quick) / 3 (thorough) - is printed at four doubling sizes while package line events are counted. The count at 2n must stay within 8x the count at n (+slack); the limit is installed as a budget, so an exponential family is reported after a bounded number of steps instead of being waited for, and exceeding the first budget is a termination violation. Counts are exactly reproducible, unlike the wall-clock thresholds of the two pinned performance tests.',
        note='a bounded check of a growth law on enumerated families, not a proof of a polynomial bound; a regression from quadratic to cubic is inside the property and not flagged; trusted: sys.monitoring event delivery'),
    'C13': dict(
        category='model_checking', design_ref='DESIGN.md 4/C13',
        technique='exhaustive enumeration of all rooted object graphs <= 3 nodes (list / dict / tuple-holding-list, out-degree <= 2, self-loops, sharing) printed by the real code and compared, as ASTs, with a reference DFS carrying the on-path set; exhaustive re-print / aborted-print / pair histories for residue',
        text='Every rooted directed multigraph up to three nodes (plus out-degree-1 graphs on four nodes and ring/lollipop/diamond families up to eight nodes in the thorough tier) is printed under a watchdog; recursion markers are rewritten to node identifiers and the output must have exactly the AST of a reference DFS that marks back-edges only, so a marker on merely shared structure, or a missing one, is a structural difference. Histories (print twice; abort a print through a printer returning a non-Doc, then print again; g1, g2, g1 over all small pairs) must reproduce the first-call output, and a probe printer checks that the visited set has exactly the DFS depth.',
        note='trusted: reference DFS (20 lines); identity through id() in the marker text; termination is decided by a 3 s periodic watchdog per print; also covered: dict values carrying comments (lazily re-rendered), OrderedDicts (printers that build temporaries), user objects whose printers derive their context, chains of 25/60 nested containers'),
    'C14': dict(
        category='fault_enumeration', design_ref='DESIGN.md 4/C14',
        technique='exhaustive single-fault (thorough: ordered double-fault) injection at every numbered printer invocation x 12 exception classes over all small trees of instrumented user objects with every comment / trailing_comment placement; differential oracle against the run in which that invocation returns repr(value)',
        text='One fault-free run numbers the printer invocations of a tree; then each invocation in turn raises each exception class, and the output must equal the output of the run where that invocation returns repr(value) (so every other part is exactly what it would have been), with exactly one warning naming the printer, an unaffected fault-free print afterwards, and ValueError for a non-Doc return. Every tree up to the node bound, every wrapper placement and every fault point is enumerated, which is what reaches the trailing-comment path where only TypeError used to be caught.',
        note='trusted: the stub run as definition of containment; exception classes are a fixed list of Exception subclasses (BaseException-only classes are outside the statement); bound: trees <= 3 nodes single faults (quick), <= 4 nodes plus fault pairs (thorough); printer kinds: pretty_call, hand-built Doc, trailing_comment parameter, **kwargs, by-name base printer reached through a subclass; nothing is reset between runs'),
    'C15': dict(
        category='model_checking', design_ref='DESIGN.md 4/C15',
        technique='explicit-state BFS over all operation histories up to a depth bound on the real registries (76 operations on a 6-class lattice with multiple inheritance: register by class / name / predicate incl. an instance-dependent predicate, plain / flagged / comment-wrapped / nested prints, all is_registered flag combinations), states merged by a canonical (implementation, reference-model) abstraction and validated differentially, plus an unmerged exhaustive pass over all histories of length 3',
        text='Breadth-first search over every history of register-by-class / by-name / by-predicate, print and is_registered (all legal flag combinations) up to the depth bound; each transition restores a snapshot of the real registries, replays the history on the real package and compares the observed printer tag or boolean with an MRO-walk reference model. Canonical state hashing (tags renamed in order of appearance) makes depth 5-6 tractable, and every state reached by a second history has its complete outgoing observation vector recomputed and compared, so a wrong merge is reported rather than hidden. Dispatch after arbitrary interleavings is a statement about all histories, which four fixed test orders cannot settle.',
        note='trusted: the reference model in mc/checks/c15.py (about 50 lines); is_registered(check_deferred=False) is constrained only where the statement/pinned tests constrain it; bound: depth 5 (quick) / 6 (thorough) on one lattice'),
    'C17': dict(
        category='exploration', design_ref='DESIGN.md 4/C17',
        technique='exhaustive enumeration of args/kwargs lists x callables x both call APIs, and of generated dataclass / attrs class definitions (fields x defaults x repr flags x frozen/slots variants x field names) x all default/other instances; AST-level oracle plus evaluation',
        text='A user type is printed through pretty_call and pretty_call_alt with every argument list of the bounded grammar and five kinds of callables; on the AST the callee must be the qualified name, positional and keyword arguments must appear in the given order and every argument subtree must equal the AST of that argument printed on its own. About 2 000 generated dataclass and attrs definitions are instantiated in every default/non-default combination; the keywords shown must be exactly the fields with repr enabled whose value differs from the default (or that have none), in declaration order, and evaluation must reconstruct an equal instance. One class per library and three instances are all the suite has.',
        note='trusted: CPython ast/eval; class definitions rejected by the library itself are skipped and counted; bound: <= 3 fields (+ an attrs field whose default is derived from the instance), <= 3 positional and <= 3 keyword arguments incl. None/Ellipsis, kwargs passed as list/tuple/dict/OrderedDict/zip/generator, a redefinition of every class under the same qualified name'),
    'C18': dict(
        category='model_checking', design_ref='DESIGN.md 4/C18',
        technique='explicit-state search of the default-configuration state space (32 states x 243 set_default_config operations, all transitions executed on the real module) with a complete observation vector per state (3 probes x 3^6 explicit/default combinations x every entry point) against a dictionary-merge reference model',
        text='Every set_default_config operation is executed from every reachable default configuration and compared with a dict-update model (state, return value, get_default_config, no other key changed). In the states observed, every combination of explicit/defaulted settings is pushed through pformat, pprint (three end strings), cpprint with colour off, PrettyPrinter.pformat/pprint and pretty_repr; all must equal the reference text for the merged effective settings, and that text must be the same in every state and from a second history. No test calls set_default_config or PrettyPrinter at all.',
        note='trusted: fully explicit pformat output as reference for its effective settings (cross-checked between states); quick observes the pristine state, the all-b state and a seed-rotated third of the 32 states, thorough all of them; a harness self-check fails the run if a setting is not observable through the probes; probes include a class whose printer is registered on an ABC it only virtually belongs to (pretty_repr) and a stream that is falsy while empty'),
    'C19': dict(
        category='model_checking', design_ref='DESIGN.md 4/C19',
        technique='explicit-state BFS over print histories from the restored cold registry snapshot, states read back from the real globals (pending by-name registrations, promoted classes, cached struct-sequence classes); in every state every corpus value is printed and compared with its first print in a fresh interpreter; deep input snapshots around every print; id() seam',
        text='Starting from the cold registries, the search prints every corpus value in every reachable warm-up state (all 2^7 combinations of the lazily initialised mechanisms are reached, so every order and repetition of first uses is covered up to state equivalence) and requires the text of the first print of that value in a fresh interpreter. Every print is bracketed by a canonical deep snapshot of the input (types, ordered contents, public attributes, aliasing) and repeated with id() perturbed inside the package, which turns dependence on allocation addresses into a deterministic difference. No test compares one value across two histories.',
        note='trusted: subprocess reference with the same PYTHONHASHSEED; private (underscore) attributes of opaque objects are treated as caches, not as value; lazily normalised layout constants cannot be reset inside one interpreter - their cold case is the fresh-interpreter reference; a collision corpus (equal values of different types, the same text as str / bytes / path / subclass / key / value), all ordered pairs in-process and, for the collision subset, each in its own fresh interpreter; requests objects with the requests extra'),
    'C20': dict(
        category='model_checking', design_ref='DESIGN.md 4/C20',
        technique='stateless model checking of the real code: real threads under a deterministic cooperative scheduler (sys.settrace line events inside the package), all schedules up to a preemption bound enumerated depth-first over choice prefixes (iterative context bounding), result of every thread compared with the sequential run',
        text='Two or three real threads perform first-use and repeated pformat calls on a class registered by name, its subclass, a directly registered class, an unregistered object, a struct sequence and small containers; the scheduler can switch at every line boundary inside the package and the explorer enumerates every schedule with at most B preemptions (B = 1 at every line, B = 2 at the lines of functions that the source shows to touch shared mutable state, and B = 1 between the individual bytecodes of those functions in the quick tier; B = 2 everywhere / 3 at visible lines / 2 between bytecodes in the thorough tier). Locks found in the package are replaced by cooperative ones, so a lock-based variant neither hangs nor alarms. Every execution must return the sequential texts in every thread, raise nowhere and leave the registries in the sequential end state. The window between the membership test and the pop of the deferred registry is a few bytecodes wide - a stress test almost never hits it, a controlled schedule hits it deterministically.',
        note='trusted: sys.settrace line/opcode event delivery; scheduling points are the line boundaries of the package and of functools.py (singledispatch); switches inside C code and other stdlib modules are not modelled, nor are free-threaded builds; visible lines are computed from the package AST, and the all-lines exploration at the lower bound validates that reduction; each schedule is replayable (run-length encoded) and the harness asserts that replaying the empty schedule twice gives identical observations'),
    'C16': dict(
        category='exploration', design_ref='DESIGN.md 4/C16',
        technique='exhaustive cross product of a value corpus x widths x every installed pygments style + the two bundled styles x three colour modes with colour forced on, and exhaustive enumeration of annotated documents up to a node bound; output decoded by an independent SGR state machine and compared per character with the annotation structure of the SDoc stream',
        text='Every corpus value is written by cpprint under every style shipped with the installed pygments and both bundled styles in 8/256/true-colour mode; the decoded text must equal the plain rendering exactly, the stream must end in the reset state, no style may make rendering fail, and in true-colour mode every non-blank character must carry exactly the attributes style_for_token gives for the innermost enclosing token annotation (so restoring the enclosing style after an inner token, and non-token annotations inside tokens, are checked). All annotated documents up to six nodes (nesting <= 3) go through colored_render_to_stream the same way. Under pytest colorful emits no escape sequence at all, so none of this logic had ever produced a byte in a test run.',
        note='trusted: pygments style_for_token as the meaning of a style; the SGR decoder of mc/checks/c16.py; blank characters are compared only through the stripped text; colorful global mode is owned by the check process'),
}

ALL = ['C%02d' % i for i in range(1, 21)]


def main():
    path = os.path.join(VERIF, 'MANIFEST.json')
    with open(path) as f:
        m = json.load(f)
    checks = []
    for pid in ALL:
        c = CHECKS.get(pid)
        if not c:
            continue
        checks.append({
            'property_id': pid,
            'quick_cmd': '/venv/bin/python -m mc.run %s --tier quick' % pid,
            'thorough_cmd': '/venv/bin/python -m mc.run %s --tier thorough' % pid,
            'evidence_file': '/verif/evidence/%s.json' % pid,
            'replay_cmd_template': '/venv/bin/python -m mc.run %s --replay {path}' % pid,
            'engine': 'mc',
            'level_claimed': {'category': c['category'], 'text': c['text'], 'design_ref': c['design_ref']},
            'level_note': c['note'],
            'technique': c['technique'],
        })
    m['checks'] = checks
    m['engines'][0]['serves_properties'] = [c['property_id'] for c in checks]
    m['not_applicable'] = [
        {'property_id': pid, 'reason': 'check not built yet in this round (planned, see DESIGN.md section 8); not claimed until it is'}
        for pid in ALL if pid not in CHECKS]
    with open(path, 'w') as f:
        json.dump(m, f, indent=1)
        f.write('\n')


if __name__ == '__main__':
    main()
