"""Regenerates /verif/MANIFEST.json from the table below (keeps the file valid at all times)."""
import json
import os

VERIF = os.path.dirname(os.path.dirname(os.path.abspath(__file__)))

CHECKS = {
    'C04': dict(
        category='model_checking', design_ref='DESIGN.md 4/C04',
        technique='explicit enumeration of all document terms <= K nodes x all (width, ribbon) pairs x both strategies on the real engine; membership of each observed SDoc stream in the fully enumerated layout set of the reference semantics',
        text='Bounded-exhaustive model checking of the real layout engine against an executable denotational semantics of the combinator algebra: every document up to the node bound, every integer width/ribbon pair up to the flat length + 2 and both strategies are executed, and each output must be a member of the enumerated layout set. A for-all statement over documents and configurations is exactly what exhaustive small-scope enumeration decides; every explored trace is an implementation trace.',
        note='trusted: the reference semantics in mc/docalg.py (about 100 lines, written from the property statement); bound: documents <= 5 (quick) / 6 (thorough) nodes plus a reduced alphabet one node deeper; documents outside the bound are not covered'),
}

ALL = ['C%02d' % i for i in range(1, 21)]


def main():
    path = os.path.join(VERIF, 'MANIFEST.json')
    with open(path) as f:
        m = json.load(f)
    checks = []
    for pid in ALL:
        c = CHECKS.get(pid)
        if not c:
            continue
        checks.append({
            'property_id': pid,
            'quick_cmd': '/venv/bin/python -m mc.run %s --tier quick' % pid,
            'thorough_cmd': '/venv/bin/python -m mc.run %s --tier thorough' % pid,
            'evidence_file': '/verif/evidence/%s.json' % pid,
            'replay_cmd_template': '/venv/bin/python -m mc.run %s --replay {path}' % pid,
            'engine': 'mc',
            'level_claimed': {'category': c['category'], 'text': c['text'], 'design_ref': c['design_ref']},
            'level_note': c['note'],
            'technique': c['technique'],
        })
    m['checks'] = checks
    m['engines'][0]['serves_properties'] = [c['property_id'] for c in checks]
    m['not_applicable'] = [
        {'property_id': pid, 'reason': 'check not built yet in this round (planned, see DESIGN.md section 8); not claimed until it is'}
        for pid in ALL if pid not in CHECKS]
    with open(path, 'w') as f:
        json.dump(m, f, indent=1)
        f.write('\n')


if __name__ == '__main__':
    main()
