"""Oracles shared by the value-level checks.  Trusted base: CPython's ast / tokenize / eval."""
import ast
import io
import math
import re
import struct
import tokenize
import warnings


# ----------------------------------------------------------------------------- running the code

class Run:
    """Result of one call of the code under test."""
    __slots__ = ('text', 'exc', 'warnings')

    def ok(self):
        return self.exc is None and not self.warnings


def run_pformat(value, **kw):
    from prettyprinter import pformat
    r = Run()
    r.text, r.exc = None, None
    with warnings.catch_warnings(record=True) as ws:
        warnings.simplefilter('always')
        try:
            r.text = pformat(value, **kw)
        except Exception as e:     # noqa
            r.exc = '%s: %s' % (type(e).__name__, str(e)[:200])
    r.warnings = [str(w.message)[:160] for w in ws]
    return r


# ----------------------------------------------------------------------------- syntax

def parse_expr(text):
    """The output as an expression.  The leading newline keeps a top-level '# comment' from
    swallowing the parenthesis."""
    return ast.parse('(\n' + text + '\n)', mode='eval')


def dump(text):
    return ast.dump(parse_expr(text))


def eval_in(text, ns):
    return eval(compile(parse_expr(text), '<pformat output>', 'eval'), dict(ns))


def tokens(text):
    return list(tokenize.generate_tokens(io.StringIO('(\n' + text + '\n)').readline))


def comment_tokens(text):
    return [t.string for t in tokens(text) if t.type == tokenize.COMMENT]


_ID = re.compile(r'\bid=-?\d+')
_AT = re.compile(r' at 0x[0-9a-fA-F]+')


def normalize_ids(text):
    return _AT.sub(' at 0x?', _ID.sub('id=?', text))


# ----------------------------------------------------------------------------- typed equality

def canon(v):
    """Hashable canonical form: type at every position, floats by bit pattern (nan = nan)."""
    t = type(v)
    if t is float:
        return ('float', 'nan' if math.isnan(v) else struct.pack('>d', v))
    if t in (list, tuple):
        return (t.__name__, tuple(canon(x) for x in v))
    if t in (set, frozenset):
        return (t.__name__, frozenset(canon(x) for x in v))
    if t is dict:
        return ('dict', tuple((canon(k), canon(x)) for k, x in v.items()))
    if isinstance(v, (list, tuple)):
        return (t.__module__ + '.' + t.__qualname__, tuple(canon(x) for x in v))
    if isinstance(v, (set, frozenset)):
        return (t.__module__ + '.' + t.__qualname__, frozenset(canon(x) for x in v))
    if isinstance(v, dict):
        return (t.__module__ + '.' + t.__qualname__, tuple((canon(k), canon(x)) for k, x in v.items()))
    if isinstance(v, float):
        return (t.__module__ + '.' + t.__qualname__, 'nan' if math.isnan(v) else struct.pack('>d', float(v)))
    if isinstance(v, int) and t is not int and t is not bool:
        return (t.__module__ + '.' + t.__qualname__, int(v))
    if isinstance(v, str) and t is not str:
        return (t.__module__ + '.' + t.__qualname__, str.__str__(v))
    if isinstance(v, bytes) and t is not bytes:
        return (t.__module__ + '.' + t.__qualname__, bytes(v))
    return (t.__name__, v)


def sortable(keys):
    """Are the keys mutually comparable (sorted() is well defined)?"""
    keys = list(keys)
    for k in keys:
        if isinstance(k, float) and math.isnan(k):
            return False
    try:
        for a in keys:
            for b in keys:
                a < b   # noqa
    except TypeError:
        return False
    return True


def typed_eq(got, exp, sort=False):
    """got: evaluated output; exp: the printed value.  Same type at every position; dict item
    order = insertion order (or ascending key order when sort and the keys are comparable; when
    they are not, any order is accepted)."""
    if type(got) is not type(exp):
        return False
    if isinstance(exp, dict):
        if len(got) != len(exp):
            return False
        items = list(exp.items())
        if sort:
            if sortable(exp.keys()):
                items.sort(key=lambda kv: kv[0])
            else:
                want = {canon(k): v for k, v in items}
                for k, v in got.items():
                    ck = canon(k)
                    if ck not in want or not typed_eq(v, want.pop(ck), sort):
                        return False
                return not want
        return all(typed_eq(gk, ek, sort) and typed_eq(gv, ev, sort)
                   for (gk, gv), (ek, ev) in zip(got.items(), items))
    if isinstance(exp, (list, tuple)):
        return len(got) == len(exp) and all(typed_eq(a, b, sort) for a, b in zip(got, exp))
    return canon(got) == canon(exp)


# ----------------------------------------------------------------------------- expressions for replay files

def expr_of(v):
    """A constructor expression for a built-in value (my own serializer, independent of the package)."""
    t = type(v)
    if t is float:
        if math.isnan(v):
            return "float('nan')"
        if math.isinf(v):
            return "float('inf')" if v > 0 else "float('-inf')"
        return repr(v)
    if t is list:
        return '[' + ', '.join(expr_of(x) for x in v) + ']'
    if t is tuple:
        return '(' + ', '.join(expr_of(x) for x in v) + (',)' if len(v) == 1 else ')')
    if t is set:
        return 'set([' + ', '.join(expr_of(x) for x in v) + '])'
    if t is frozenset:
        return 'frozenset([' + ', '.join(expr_of(x) for x in v) + '])'
    if t is dict:
        return '{' + ', '.join(expr_of(k) + ': ' + expr_of(x) for k, x in v.items()) + '}'
    if v is Ellipsis:
        return '...'
    if hasattr(v, '__verif_expr__'):
        return v.__verif_expr__()
    return repr(v)


def one_line(value, **kw):
    """Unbounded rendering and its length (None if it has more than one line)."""
    r = run_pformat(value, width=10 ** 6, ribbon_width=10 ** 6, **kw)
    if r.text is None or '\n' in r.text:
        return r, None
    return r, len(r.text)
