"""The shared value corpus of C03 and C06 (part 2): the union of the other checks' generators at
their small bounds.  Every entry is (label, value, namespace-needed-for-eval-or-None)."""
import itertools

from . import values, fixtures, oracles


def builtin_trees(nmax):
    t = values.Trees()
    for n in range(1, nmax + 1):
        for v in t.gen(n):
            yield 'tree', v


def stdlib_values():
    from .checks import c07
    step = {'timedelta': 7, 'datetime': 9, 'time': 5}
    seen = {}
    for v in c07.all_values():
        k = type(v).__name__
        seen[k] = seen.get(k, 0) + 1
        if seen[k] % step.get(k, 1) == 0 or step.get(k, 1) == 1:
            yield 'stdlib:' + k, v


def subclass_values():
    from .checks import c08
    for i, v in enumerate(c08.instances()):
        if i % 2 == 0:
            yield 'subclass', v
            yield 'subclass-in-list', ['x' * 28, v]


def commented_values():
    from prettyprinter import comment, trailing_comment
    from .checks import c09
    for name, builder in c09.specs():
        ids = c09.node_types(builder)
        for pl in c09.placements(ids, True):
            def w(i, v, pl=pl):
                if i in pl:
                    for kind in pl[i]:
                        v = comment(v, 'note %d here' % i) if kind == 'c' else trailing_comment(v, 'trailing %d' % i)
                return v
            yield 'commented:' + name, builder(w)


def call_values():
    from .checks import c17
    c17.ensure_registered()
    for i, (args, kw) in enumerate(c17.call_cases()):
        if i % 23 == 0:
            fn = c17.CALLABLES[i % len(c17.CALLABLES)]
            yield 'call', c17.Spec(fn[1], args, kw, bool(i % 2))
    n = 0
    for (lib, mk, fields, variant, idx) in c17.class_cases():
        if idx % 29:
            continue
        try:
            cls = mk(fields, variant, idx)
        except Exception:     # noqa
            continue
        for choice in itertools.product((0, 1), repeat=len(fields)):
            kwargs = {name: ((c17.fresh_default(kind) if kind != 'none' else 7) if c == 0 else [8])
                      for (name, kind, rp), c in zip(fields, choice)}
            yield lib, cls(**kwargs)


def scaled_values():
    """Deterministic larger values: long flat containers around the 3n > 150 shortcut, deep chains."""
    for n in (50, 51, 150):
        yield 'scaled', list(range(n))
        yield 'scaled', tuple(range(n))
        yield 'scaled', {i: i for i in range(n)}
        yield 'scaled', set(range(n))
    for rec in ((0,), (1,), (3,), (0, 3), (5,), (6,)):
        for depth in (8, 20):
            for leaf in ('', 'a b', 1):
                yield 'scaled', values.chain(rec, depth, leaf)


def string_placements():
    """Long (splittable) strings in every kind of position, incl. keyword arguments of call-style
    printers whose name length + 1 is not a multiple of the indent."""
    import types
    from .fixtures import Call, NT
    for s in ('word ' * 10, 'x' * 70, b'by tes ' * 9, 'a/b c ' * 9):
        yield 'strpos', s
        yield 'strpos', [s, 1]
        yield 'strpos', {'k': s}
        yield 'strpos', {s: 1}
        yield 'strpos', Call(s)
        yield 'strpos', Call(1, s)
        for name in ('a', 'kw', 'body', 'message'):
            yield 'strpos', Call(1, **{name: s})
        yield 'strpos', NT(s, 1)
        yield 'strpos', NT(1, s)
        yield 'strpos', types.SimpleNamespace(body=s, x=1)
        yield 'strpos', [{'key': Call(kw=[s])}]
        yield 'strpos', ValueError(s, 1)


def quote_mix_values():
    """Strings whose numbers of apostrophes and double quotes differ in every way (the printed quote is
    chosen by the library, repr() would choose differently), longer than the 10-column floor, in containers."""
    seen = set()
    for slots in itertools.product(("'", '"', ''), repeat=5):
        s = 'ab ' + 'cd '.join(slots) + 'ef'
        if s in seen or ("'" not in s and '"' not in s):
            continue
        seen.add(s)
        yield 'quotes', [s]
        if len(seen) % 3 == 0:
            yield 'quotes', {'k': s}
            yield 'quotes', (s.encode(), 1)


def everything(tree_nodes):
    fixtures.register()
    return itertools.chain(builtin_trees(tree_nodes), scaled_values(), string_placements(), quote_mix_values(), stdlib_values(), subclass_values(), commented_values(), call_values())


_MATERIALISED = {}


def materialised(tree_nodes):
    """The corpus as a list, built once (in the master, before the workers are forked)."""
    if tree_nodes not in _MATERIALISED:
        _MATERIALISED[tree_nodes] = list(everything(tree_nodes))
    return _MATERIALISED[tree_nodes]
