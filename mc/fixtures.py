"""Classes used as inputs by several checks.  They live at module level so that the qualified
names the printers emit (mc.fixtures.X) evaluate in a namespace that holds the `mc` package."""
import enum
import sys

from . import oracles

# ----------------------------------------------------------------------------- call-style user type


class Call:
    """Printed through pretty_call(ctx, Call, *args, **kwargs)."""

    def __init__(self, *args, **kwargs):
        self.args = args
        self.kwargs = kwargs

    def __eq__(self, other):
        return (type(other) is Call and deep_canon(other.args) == deep_canon(self.args)
                and [(k, deep_canon(v)) for k, v in other.kwargs.items()] == [(k, deep_canon(v)) for k, v in self.kwargs.items()])

    def __hash__(self):
        return 7

    def __repr__(self):
        return 'Call<%r %r>' % (self.args, self.kwargs)

    def __verif_expr__(self):
        parts = [oracles.expr_of(a) for a in self.args] + ['%s=%s' % (k, oracles.expr_of(v)) for k, v in self.kwargs.items()]
        return 'Call(%s)' % ', '.join(parts)


def deep_canon(v):
    if type(v) is Call:
        return ('Call', deep_canon(v.args), tuple((k, deep_canon(x)) for k, x in v.kwargs.items()))
    if isinstance(v, (list, tuple)):
        return (type(v).__qualname__, tuple(deep_canon(x) for x in v))
    if isinstance(v, dict):
        return (type(v).__qualname__, tuple((deep_canon(k), deep_canon(x)) for k, x in v.items()))
    return oracles.canon(v)


_done = []


def register():
    """Idempotent registration of the printers for the fixture types."""
    if _done:
        return
    from prettyprinter import register_pretty, pretty_call

    @register_pretty(Call)
    def pretty_callobj(v, ctx):
        return pretty_call(ctx, Call, *v.args, **v.kwargs)
    _done.append(1)


# ----------------------------------------------------------------------------- subclasses of built-ins

def _loud(base):
    def __repr__(self):
        return '<loud %s>' % base.__name__

    def __str__(self):
        return 'loud-str'
    return {'__repr__': __repr__, '__str__': __str__}


SUBCLASSES = {}     # base -> [plain, loud]
for _base in (list, tuple, set, frozenset, dict, str, bytes, int, float):
    _n = _base.__name__.capitalize()
    _plain = type('Plain' + _n, (_base,), {'__module__': __name__})
    _loudc = type('Loud' + _n, (_base,), dict(_loud(_base), __module__=__name__))
    for _c in (_plain, _loudc):
        _c.__qualname__ = _c.__name__
        setattr(sys.modules[__name__], _c.__name__, _c)
        _c.__verif_expr__ = (lambda self, _c=_c, _b=_base: '%s(%s)' % (_c.__name__, oracles.expr_of(str.__str__(self) if _b is str else _b(self))))
    SUBCLASSES[_base] = [_plain, _loudc]

# a tuple subclass that merely *carries* namedtuple-looking attributes: still a plain subclass
_ft = type('FieldsTuple', (tuple,), {'__module__': __name__, '_fields': ('id', 'name'), '__slots__': ()})
_ft.__verif_expr__ = lambda self: 'FieldsTuple(%s)' % oracles.expr_of(tuple(self))
setattr(sys.modules[__name__], 'FieldsTuple', _ft)
SUBCLASSES[tuple].append(_ft)

# subclasses living in a private top-level module `_mcpriv` while an unrelated public module `mcpriv`
# (which does not re-export them) is imported too: the printed name must be the class's own module
import types as _types
_priv, _pub = _types.ModuleType('_mcpriv'), _types.ModuleType('mcpriv')
sys.modules['_mcpriv'], sys.modules['mcpriv'] = _priv, _pub
for _base in (list, str, int, dict):
    _c = type('Priv' + _base.__name__.capitalize(), (_base,), {'__module__': '_mcpriv'})
    _c.__verif_expr__ = (lambda self, _c=_c, _b=_base: '_mcpriv.%s(%s)' % (_c.__name__, oracles.expr_of(str.__str__(self) if _b is str else _b(self))))
    setattr(_priv, _c.__name__, _c)
    SUBCLASSES[_base].append(_c)


class IE(enum.IntEnum):
    A = 1
    B = -2
    Z = 0


class Color(enum.Enum):
    RED = 1
    GREEN = 'g'
    BLUE = (1, 2)


class SE(str, enum.Enum):
    S = 's'
    EMPTY = ''
    Q = "it's"


class Fl(enum.Flag):
    X = 1
    Y = 2


def namespace():
    import mc
    ns = {'mc': mc, 'Call': Call, 'float': float, 'frozenset': frozenset, 'set': set,
          '_mcpriv': sys.modules['_mcpriv'], 'mcpriv': sys.modules['mcpriv']}
    return ns


# ----------------------------------------------------------------------------- stdlib fixtures (C07)
import collections as _collections

NT = _collections.namedtuple('NT', 'a b')
NT0 = _collections.namedtuple('NT0', '')
NT3 = _collections.namedtuple('NT3', 'x y z')
for _c in (NT, NT0, NT3):
    _c.__module__ = __name__


def f(*a, **k):
    return (a, k)


def factory():
    return [0]


import datetime as _dt


class Period(_dt.timedelta, enum.Enum):
    """The documented mixin recipe: members are timedeltas."""
    DAY = 1
    WEEK = 7


class Shift(_dt.time, enum.Enum):
    MORNING = 6, 30
    NIGHT = 22, 0


class FloatE(float, enum.Enum):
    HALF = 0.5
    NEG = -0.0


class BytesE(bytes, enum.Enum):
    MAGIC = b'\x89PNG'
