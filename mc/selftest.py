"""setup_cmd: nothing to build (pure Python run against /repo's working tree).  Verifies that the
package under test is importable from /repo, that MANIFEST.json and known_findings.json parse, and
(when python3-vt with jsonschema is present) that they and any evidence files validate."""
import glob
import json
import os
import shutil
import subprocess
import sys

VERIF = os.path.dirname(os.path.dirname(os.path.abspath(__file__)))


def main():
    sys.path.insert(0, '/repo')
    import prettyprinter
    assert os.path.abspath(prettyprinter.__file__).startswith('/repo/'), prettyprinter.__file__
    json.load(open(os.path.join(VERIF, 'MANIFEST.json')))
    json.load(open(os.path.join(VERIF, 'known_findings.json')))
    vt = shutil.which('python3-vt')
    if vt and os.path.exists('/root/.vp/MANIFEST.schema.json'):
        code = (
            "import json,jsonschema,glob,sys\n"
            "jsonschema.validate(json.load(open('%s/MANIFEST.json')), json.load(open('/root/.vp/MANIFEST.schema.json')))\n"
            "s=json.load(open('/root/.vp/EVIDENCE.schema.json'))\n"
            "for p in glob.glob('%s/evidence/*.json'):\n"
            "    try: jsonschema.validate(json.load(open(p)), s)\n"
            "    except Exception as e: print('WARNING: evidence file', p, 'does not validate (it is rewritten by its check):', str(e)[:100])\n"
            "print('schemas ok')\n" % (VERIF, VERIF))
        subprocess.check_call([vt, '-c', code])
    print('selftest ok: prettyprinter from', prettyprinter.__file__)


if __name__ == '__main__':
    main()
