"""Deterministic enumerators of built-in value trees and of layout configurations."""
import itertools

from .oracles import canon

INF = float('inf')
NAN = float('nan')

LEAVES = [0, 1, -1, 10 ** 20, True, False, None, ..., 0.0, -0.0, 1.5, 1e22, INF, -INF, NAN,
          '', 'a', "'", '"', 'a b', 'é', '\n', b'', b'a', b"'"]
EMPTIES = [[], (), set(), frozenset(), {}]
REDUCED_LEAVES = [0, True, None, -0.0, NAN, '', 'a b']


def hashable(v):
    try:
        hash(v)
        return True
    except TypeError:
        return False


def _splits(total, parts):
    if parts == 1:
        if total >= 1:
            yield (total,)
        return
    for first in range(1, total - parts + 2):
        for rest in _splits(total - first, parts - 1):
            yield (first,) + rest


class Trees:
    """All value trees with exactly n nodes (a container counts 1 + its children; a dict pair
    contributes key + value).  list/tuple/set/frozenset with 1..3 children, dict with 1..2 pairs."""

    def __init__(self, leaves=None, empties=True):
        self.leaves = list(LEAVES if leaves is None else leaves) + (list(EMPTIES) if empties else [])
        self._memo = {}

    def terms(self, n):
        if n not in self._memo:
            self._memo[n] = list(self.gen(n))
        return self._memo[n]

    def gen(self, n):
        if n == 1:
            yield from self.leaves
            return
        for k in (1, 2, 3):
            if n - 1 < k:
                continue
            for sizes in _splits(n - 1, k):
                for ch in itertools.product(*[self.terms(s) for s in sizes]):
                    yield list(ch)
                    yield tuple(ch)
                    if all(hashable(c) for c in ch):
                        if len({canon(c) for c in ch}) == k and len(set(ch)) == k:
                            yield set(ch)
                            yield frozenset(ch)
        for pairs in (1, 2):
            if n - 1 < 2 * pairs:
                continue
            for sizes in _splits(n - 1, 2 * pairs):
                pools = [self.terms(s) for s in sizes]
                for ch in itertools.product(*pools):
                    keys = ch[0::2]
                    if not all(hashable(k) for k in keys):
                        continue
                    d = dict(zip(keys, ch[1::2]))
                    if len(d) == pairs:
                        yield d


def has_dict(v):
    if isinstance(v, dict):
        return True
    if isinstance(v, (list, tuple, set, frozenset)):
        return any(has_dict(x) for x in v)
    return False


# ----------------------------------------------------------------------------- deep-chain families

def w_list1(v):
    return [v]


def w_tuple1(v):
    return (v,)


def w_list2(v):
    return [0, v]


def w_dictval(v):
    return {'k': v}


def w_tuplekey(v):
    return {(v,): 1} if hashable(v) else {'k': (v,)}


def w_dict3(v):
    return {'a': 1, 'b': v, 'c': 3}


def w_fset(v):
    return frozenset([v]) if hashable(v) else [frozenset([0]), v]


WRAPPERS = [w_list1, w_tuple1, w_list2, w_dictval, w_tuplekey, w_dict3, w_fset]


def recipes(maxlen):
    for n in range(1, maxlen + 1):
        yield from itertools.product(range(len(WRAPPERS)), repeat=n)


def chain(recipe, depth, leaf):
    v = leaf
    for i in range(depth):
        v = WRAPPERS[recipe[(depth - 1 - i) % len(recipe)]](v)
    return v


# ----------------------------------------------------------------------------- configurations

def ribbons(w, mode):
    if mode == 'all':
        return list(range(1, w + 1))
    return sorted({1, (w + 1) // 2, w})


def width_lattice(L, ribbon_mode, cap=60, sentinels=(79, 200)):
    """(width, ribbon) pairs: every width in [1, min(L, cap)+3], ribbons per mode, + sentinel widths."""
    top = min(L, cap) + 3
    for w in range(1, top + 1):
        for r in ribbons(w, ribbon_mode):
            yield w, r
    for w in sentinels:
        if w > top:
            for r in ribbons(w, 'some'):
                yield w, r
