"""Bounded-exhaustive model checking of tommikaikkonen/prettyprinter (see /verif/DESIGN.md)."""
