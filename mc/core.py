"""Shared runner machinery: worker pool, watchdog, evidence writer, replay files, known findings.

Every check module under mc/checks exposes

    PROPERTY = 'Cxx'
    LEVEL    = 'exploration' | 'fault_enumeration' | 'model_checking'
    def run(tier, seed) -> Result
    def replay(case) -> (ok: bool, text: str)

and is started through ``python -m mc.run Cxx --tier quick|thorough``.
"""
import collections
import hashlib
import json
import multiprocessing
import os
import signal
import sys
import time
import traceback

VERIF = os.path.dirname(os.path.dirname(os.path.abspath(__file__)))
REPO = os.environ.get('VERIF_REPO', '/repo')
NPROC = int(os.environ.get('VERIF_NPROC', '16'))
GUARD = 'PRETTYPRINTER_VERIF'

MAX_STORED_VIOLATIONS = 40      # per chunk; all are counted
PER_KIND = 3
if os.environ.get('VERIF_DUMP_VIOLATIONS'):      # debugging aid: keep (almost) everything
    MAX_STORED_VIOLATIONS, PER_KIND = 10 ** 6, 10 ** 6
MAX_SAMPLES = 8


class Timeout(BaseException):
    """Not an Exception: the package's own 'except Exception' must not swallow the watchdog."""


def _alarm(signum, frame):
    raise Timeout()


class deadline:
    """Watchdog: ``with deadline(5.0): ...`` raises Timeout inside the block (main thread only)."""

    def __init__(self, seconds):
        self.seconds = seconds

    def __enter__(self):
        self.old = signal.signal(signal.SIGALRM, _alarm)
        # periodic: if the first alarm is swallowed by a bare except somewhere below, the next one comes
        signal.setitimer(signal.ITIMER_REAL, self.seconds, 0.25)

    def __exit__(self, *exc):
        signal.setitimer(signal.ITIMER_REAL, 0)
        signal.signal(signal.SIGALRM, self.old)
        return False


class Part:
    """What one worker chunk (or a sequential section) reports back."""

    def __init__(self):
        self.n = 0                       # executions of the real code
        self.nontrivial = 0              # distinct non-trivial cases (each case is enumerated once)
        self.c = collections.Counter()   # free-form counters
        self.samples = []
        self.violations = []
        self.nviol = 0

    def sample(self, s):
        if len(self.samples) < MAX_SAMPLES:
            self.samples.append(s)

    def violation(self, kind, case, detail=None, finding=None):
        self.nviol += 1
        self.c['viol:' + kind] += 1
        if finding:
            self.c['finding:' + finding] += 1
        # keep the first few of every (kind, finding) so that small cases survive
        key = 'stored:%s|%s' % (kind, finding)
        if self.c[key] < PER_KIND and len(self.violations) < MAX_STORED_VIOLATIONS:
            self.c[key] += 1
            self.violations.append({'kind': kind, 'case': case, 'detail': detail, 'finding': finding})

    def pack(self):
        return {'n': self.n, 'nontrivial': self.nontrivial, 'c': dict(self.c),
                'samples': self.samples, 'violations': self.violations, 'nviol': self.nviol}


def merge(packed, into=None):
    agg = into or Part()
    for p in packed:
        if isinstance(p, Part):
            p = p.pack()
        agg.n += p['n']
        agg.nontrivial += p['nontrivial']
        agg.c.update(p['c'])
        agg.nviol += p['nviol']
        for s in p['samples']:
            agg.sample(s)
        for v in p['violations']:
            key = (v['kind'], v.get('finding'))
            have = sum(1 for w in agg.violations if (w['kind'], w.get('finding')) == key)
            if have < PER_KIND:
                agg.violations.append(v)
    return agg


def _call(args):
    fn, item = args
    try:
        r = fn(item)
        return r.pack() if isinstance(r, Part) else r
    except BaseException:
        # a crash of the harness itself: surfaced as a violation of kind 'harness-crash' so that a
        # changed tree that breaks an assumption of the harness is reported, never silently skipped
        p = Part()
        p.violation('harness-crash', {'chunk': repr(item)[:300]}, traceback.format_exc()[-2000:])
        return p.pack()


def pmap(fn, items, procs=None):
    """Run fn over items in forked workers (fork *after* the package under test is imported)."""
    items = list(items)
    procs = min(procs or NPROC, max(1, len(items)))
    if procs == 1 or os.environ.get('VERIF_SERIAL'):
        return [_call((fn, it)) for it in items]
    ctx = multiprocessing.get_context('fork')
    with ctx.Pool(procs) as pool:
        return pool.map(_call, [(fn, it) for it in items], chunksize=1)


def chunks(n, k):
    """Split range(n) into about k contiguous [lo, hi) slices."""
    k = max(1, min(k, n))
    step = (n + k - 1) // k
    return [(lo, min(n, lo + step)) for lo in range(0, n, step)]


class Result:
    def __init__(self, prop, level, tier, seed):
        self.prop, self.level, self.tier, self.seed = prop, level, tier, seed
        self.agg = Part()
        self.coverage = {}
        self.assumptions = []
        self.t0 = time.time()

    def add(self, packed):
        merge(packed, self.agg)


def load_findings(prop):
    path = os.path.join(VERIF, 'known_findings.json')
    if not os.path.exists(path):
        return {}
    with open(path) as f:
        data = json.load(f)
    return {e['id']: e for e in data.get('findings', []) if e['property'] == prop}


def _jsonable(x):
    try:
        json.dumps(x)
        return x
    except (TypeError, ValueError):
        return repr(x)


def write_replay(prop, v):
    d = os.path.join(VERIF, 'replays', prop)
    os.makedirs(d, exist_ok=True)
    body = {'property': prop, 'kind': v['kind'], 'case': _jsonable(v['case']),
            'detail': _jsonable(v.get('detail'))}
    text = json.dumps(body, indent=1, sort_keys=True, default=repr)
    h = hashlib.sha1(text.encode()).hexdigest()[:12]
    path = os.path.join(d, h + '.json')
    with open(path, 'w') as f:
        f.write(text)
    return path


def finalize(res):
    """Print the verdict lines, write evidence, return the exit code."""
    agg = res.agg
    findings = load_findings(res.prop)
    open_ids = {i for i, e in findings.items() if e.get('status') == 'open'}
    unlisted = [v for v in agg.violations if v.get('finding') not in open_ids]
    n_unlisted = agg.nviol - sum(agg.c.get('finding:' + i, 0) for i in open_ids)
    cov = dict(res.coverage)
    cov.setdefault('evaluations', agg.n)
    cov.setdefault('distinct_nontrivial', agg.nontrivial)
    cov.setdefault('samples', agg.samples[:MAX_SAMPLES])
    if not cov['samples']:
        # never leave the list empty: fall back to the space descriptions / stored violations
        cov['samples'] = [{'space': x} for x in cov.get('spaces', [])[:3]] or [{'note': 'no sample recorded'}]
    cov['counters'] = {k: v for k, v in sorted(agg.c.items()) if not k.startswith('stored:')}
    cov['known_findings_hit'] = {i: agg.c.get('finding:' + i, 0) for i in sorted(open_ids)}
    ev = {
        'property_id': res.prop, 'tier': res.tier, 'seed': res.seed, 'level': res.level,
        'coverage': cov, 'assumptions': res.assumptions,
        'wall_s': round(time.time() - res.t0, 2), 'violations': n_unlisted,
    }
    # evidence always describes /repo itself: runs against another tree (mutants) write elsewhere
    evdir = os.environ.get('VERIF_EVIDENCE_DIR') or os.path.join(VERIF, 'evidence')
    if os.path.realpath(REPO) != '/repo' and not os.environ.get('VERIF_EVIDENCE_DIR'):
        evdir = os.path.join(VERIF, 'scratch', 'evidence-other-tree')
    os.makedirs(evdir, exist_ok=True)
    with open(os.path.join(evdir, res.prop + '.json'), 'w') as f:
        json.dump(ev, f, indent=1, sort_keys=True, default=repr)
        f.write('\n')
    if os.environ.get('VERIF_DUMP_VIOLATIONS'):
        with open(os.environ['VERIF_DUMP_VIOLATIONS'], 'w') as f:
            json.dump(agg.violations, f, default=repr)
    print('%s tier=%s seed=%d evaluations=%d nontrivial=%d wall=%.1fs' % (
        res.prop, res.tier, res.seed, cov['evaluations'], cov['distinct_nontrivial'], ev['wall_s']))
    for k in ('states', 'transitions', 'traces_validated_against_impl', 'exhaustive'):
        if k in cov:
            print('  %s=%s' % (k, cov[k]))
    for k, v in sorted(agg.c.items()):
        if k.endswith('_skipped') and v:
            print('NOTE: %s=%d (an optional sub-check could not run on this tree)' % (k, v))
    for i in sorted(open_ids):
        print('KNOWN-FINDING: property=%s %s [%s] (reproduced in %d cases of this run)' % (
            res.prop, findings[i]['what'], i, agg.c.get('finding:' + i, 0)))
    if n_unlisted:
        for v in unlisted[:8]:
            path = write_replay(res.prop, v)
            print('VIOLATION property=%s replay=%s' % (res.prop, path))
            print('  kind=%s case=%s' % (v['kind'], json.dumps(_jsonable(v['case']), default=repr)[:400]))
            if v.get('detail') is not None:
                print('  detail=%s' % (json.dumps(_jsonable(v['detail']), default=repr)[:600]))
        if not unlisted:
            # counted but not stored (storage cap): still a violation
            path = write_replay(res.prop, {'kind': 'unstored', 'case': dict(agg.c), 'detail': None})
            print('VIOLATION property=%s replay=%s' % (res.prop, path))
        print('  total violating cases: %d  by kind: %s' % (
            n_unlisted, {k[5:]: c for k, c in agg.c.items() if k.startswith('viol:')}))
        return 1
    print('OK property=%s' % res.prop)
    return 0
