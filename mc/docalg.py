"""Document terms, their construction through the public combinators, an enumerator, and the
reference semantics of the document algebra (the *layout set* of a term).

A term is a JSON-able nested list/tuple:

    ['t', 'abc']  ['nil']  ['line']  ['softline']  ['hardline']
    ['cat', [d, ...]]  ['nest', i, d]  ['group', d]  ['fc', when_broken, when_flat]
    ['ab', d]  ['fill', [d, ...]]  ['align', d]  ['hang', i, d]  ['ann', tag, d]
    ['ctx', d]   contextual(fn) whose fn returns d            (denotes exactly what d denotes)
    ['rctx', d]  the same, but fn first runs a complete, unrelated layout through the public
                 layout functions (a printer measuring something with the library re-enters it
                 exactly like this) - still denotes exactly what d denotes

The reference semantics is written from the statement of C04, not from layout.py:

  * every group and every fill item is independently flat or broken;
  * text emits itself; HARDLINE emits newline + current indentation in every mode;
  * a flat_choice (LINE, SOFTLINE included) shows its flat branch iff the mode is flat;
  * nest adds to the indentation, align sets it to the current column, hang(i) = align(nest(i));
  * always_break renders its content in break mode;
  * annotate emits push/pop around its content;
  * constraint: a flat group's rendering traverses no HARDLINE node and no always_break node
    (strict).  The lenient variant - used only to classify the known finding C04/hardline-in-flat
    - allows a HARDLINE node provided no always_break was traversed before the first one.

Tokens of a rendering: str = text fragment, int = newline with that indentation,
('+', tag) / ('-', tag) = annotation push / pop.
"""
import itertools

FLAT, BREAK = 0, 1


def tagobj(tag):
    """Annotation values used in terms: 'T:<NAME>' is a syntax Token, anything else is itself."""
    if isinstance(tag, str) and tag.startswith('T:'):
        from prettyprinter.syntax import Token
        return Token[tag[2:]]
    return tag


def build(t):
    """Build the real document through the public functions of prettyprinter.doc only."""
    from prettyprinter import doc as D
    k = t[0]
    if k == 't':
        return t[1]
    if k == 'nil':
        return D.NIL
    if k == 'line':
        return D.LINE
    if k == 'softline':
        return D.SOFTLINE
    if k == 'hardline':
        return D.HARDLINE
    if k == 'cat':
        return D.concat([build(c) for c in t[1]])
    if k == 'nest':
        return D.nest(t[1], build(t[2]))
    if k == 'group':
        return D.group(build(t[1]))
    if k == 'fc':
        return D.flat_choice(when_broken=build(t[1]), when_flat=build(t[2]))
    if k == 'ab':
        return D.always_break(build(t[1]))
    if k == 'fill':
        return D.fill([build(c) for c in t[1]])
    if k == 'align':
        return D.align(build(t[1]))
    if k == 'hang':
        return D.hang(t[1], build(t[2]))
    if k == 'ann':
        return D.annotate(tagobj(t[1]), build(t[2]))
    if k == 'ctx':
        inner = build(t[1])
        return D.contextual(lambda indent, column, page_width, ribbon_width: inner)
    if k == 'rctx':
        inner = build(t[1])

        order = size(t[1]) % 2

        def fn(indent, column, page_width, ribbon_width):
            _reenter(order)
            return inner
        return D.contextual(fn)
    raise ValueError(t)


_REENTER = {}


def _reenter(order):
    """Run two complete layouts of an unrelated document (an outer group around an inner one, text
    after them) inside the evaluation of a contextual: one at a width where the outer group does not
    fit and one where everything fits; `order` (a property of the term, so that a case replays alone)
    says which comes last and which strategy runs which."""
    from prettyprinter import doc as D
    from prettyprinter.layout import layout_smart, layout_fast
    if 'doc' not in _REENTER:
        g = D.group(D.concat(['xx', D.LINE, D.group(D.concat(['y', D.LINE, 'y'])), D.LINE, 'zzzz']))
        _REENTER['doc'] = D.concat([g, 'tail'])
    plan = ((layout_smart, 6), (layout_fast, 200)) if order else ((layout_fast, 200), (layout_smart, 6))
    n = 0
    for layout, w in plan:
        n += sum(1 for _ in layout(_REENTER['doc'], width=w, ribbon_frac=0.7))
    return n


def show(t):
    k = t[0]
    if k == 't':
        return repr(t[1])
    if k in ('nil', 'line', 'softline', 'hardline'):
        return k.upper()
    if k in ('cat', 'fill'):
        return '%s([%s])' % ('concat' if k == 'cat' else 'fill', ', '.join(show(c) for c in t[1]))
    if k in ('nest', 'hang'):
        return '%s(%d, %s)' % (k, t[1], show(t[2]))
    if k == 'group':
        return 'group(%s)' % show(t[1])
    if k == 'fc':
        return 'flat_choice(when_broken=%s, when_flat=%s)' % (show(t[1]), show(t[2]))
    if k == 'ab':
        return 'always_break(%s)' % show(t[1])
    if k == 'align':
        return 'align(%s)' % show(t[1])
    if k == 'ann':
        return 'annotate(%r, %s)' % (t[1], show(t[2]))
    if k == 'ctx':
        return 'contextual(-> %s)' % show(t[1])
    if k == 'rctx':
        return 'contextual(re-enters the library; -> %s)' % show(t[1])
    raise ValueError(t)


def size(t):
    k = t[0]
    if k in ('t', 'nil', 'line', 'softline', 'hardline'):
        return 1
    if k in ('cat', 'fill'):
        return 1 + sum(size(c) for c in t[1])
    if k in ('nest', 'hang', 'ann'):
        return 1 + size(t[2])
    if k == 'fc':
        return 1 + size(t[1]) + size(t[2])
    return 1 + size(t[1])


def text_len(t):
    k = t[0]
    if k == 't':
        return len(t[1])
    if k in ('line', 'softline'):
        return 1
    if k in ('nil', 'hardline'):
        return 0
    if k in ('cat', 'fill'):
        return sum(text_len(c) for c in t[1])
    if k in ('nest', 'hang'):
        return abs(t[1]) + text_len(t[2])
    if k == 'ann':
        return text_len(t[2])
    if k == 'fc':
        return text_len(t[1]) + text_len(t[2])
    return text_len(t[1])


# ----------------------------------------------------------------------------- enumeration

class Alphabet:
    def __init__(self, leaves, unary, fc=True, cat=(2, 3), fill=(1, 3)):
        self.leaves = leaves      # list of leaf terms
        self.unary = unary        # list of functions term -> term
        self.fc = fc
        self.cat = cat            # (min, max) children, or None
        self.fill = fill
        self._memo = {}

    def terms(self, n):
        """All terms with exactly n nodes (memoised list)."""
        if n in self._memo:
            return self._memo[n]
        out = list(self.gen(n))
        self._memo[n] = out
        return out

    def count(self, n):
        return len(self.terms(n))

    def _splits(self, total, parts):
        """All ordered tuples of `parts` positive ints summing to total."""
        if parts == 1:
            if total >= 1:
                yield (total,)
            return
        for first in range(1, total - parts + 2):
            for rest in self._splits(total - first, parts - 1):
                yield (first,) + rest

    def gen(self, n):
        """Generate all terms with exactly n nodes lazily (children taken from memoised lists)."""
        if n == 1:
            yield from self.leaves
            return
        for u in self.unary:
            for c in self.terms(n - 1):
                yield u(c)
        if self.fc:
            for (a, b) in self._splits(n - 1, 2):
                for x in self.terms(a):
                    for y in self.terms(b):
                        yield ['fc', x, y]
        for kind, rng in (('cat', self.cat), ('fill', self.fill)):
            if not rng:
                continue
            for parts in range(rng[0], rng[1] + 1):
                for split in self._splits(n - 1, parts):
                    for combo in itertools.product(*[self.terms(s) for s in split]):
                        yield [kind, list(combo)]


def full_alphabet():
    # '\u65e5' is one character that occupies two terminal cells: columns are counted in characters
    leaves = [['t', 'a'], ['t', 'bb'], ['t', ' c'], ['t', ''], ['t', '\u65e5'], ['nil'], ['line'], ['softline'], ['hardline']]
    unary = [
        lambda d: ['nest', 2, d], lambda d: ['group', d], lambda d: ['ab', d], lambda d: ['align', d],
        lambda d: ['hang', 1, d], lambda d: ['ann', 'T:KEYWORD_CONSTANT', d], lambda d: ['ann', 'other', d],
        lambda d: ['nest', -3, d],      # negative offsets: the running sum may dip below zero and come back
    ]
    return Alphabet(leaves, unary)


def reduced_alphabet():
    """Full algebra with fewer leaves / wrappers, to reach one node deeper."""
    leaves = [['t', 'a'], ['t', ' c'], ['line'], ['softline'], ['hardline']]
    unary = [
        lambda d: ['nest', 2, d], lambda d: ['group', d], lambda d: ['ab', d], lambda d: ['align', d],
        lambda d: ['ann', 'T:KEYWORD_CONSTANT', d],
    ]
    return Alphabet(leaves, unary, cat=(2, 2), fill=(1, 2))


def classic_alphabet():
    """text, concat, nest, group, LINE, SOFTLINE, HARDLINE, always_break, align (C05/C06)."""
    leaves = [['t', 'a'], ['t', 'bb'], ['t', 'cccc'], ['line'], ['softline'], ['hardline']]
    unary = [lambda d: ['nest', 2, d], lambda d: ['group', d], lambda d: ['ab', d], lambda d: ['align', d],
             lambda d: ['ann', 'T:KEYWORD_CONSTANT', d]]     # annotations add no choice and no width
    return Alphabet(leaves, unary, fc=False, cat=(2, 3), fill=None)


# ----------------------------------------------------------------------------- reference semantics

class GroupInfo:
    __slots__ = ('path', 'kind', 'flat', 'indent', 'start_tok', 'end_tok', 'start_col', 'sawH', 'sawA',
                 'a_before_h', 'term', 'start_line')

    def strict_ok(self):
        return not (self.flat and self.kind == 'group' and (self.sawH or self.sawA))

    def lenient_ok(self):
        return not (self.flat and self.kind == 'group' and self.a_before_h)


class Rendering:
    """One deterministic run of the reference semantics under a prefix of choices (0 = flat)."""

    def __init__(self, prefix):
        self.prefix = prefix
        self.choices = []
        self.out = []
        self.col = 0
        self.line = 0
        self.groups = []        # GroupInfo in visit order
        self.open_flat = []     # stack of open flat *groups*
        self.ab_marks = []      # token indices at which an always_break node starts

    def choose(self):
        i = len(self.choices)
        c = self.prefix[i] if i < len(self.prefix) else 0
        self.choices.append(c)
        return c

    def text(self, s):
        if s:
            self.out.append(s)
            self.col += len(s)

    def newline(self, indent):
        self.out.append(indent)
        self.col = indent
        self.line += 1

    def _open(self, kind, t, path, flat, indent):
        g = GroupInfo()
        g.path, g.kind, g.flat, g.indent, g.term = path, kind, flat, indent, t
        g.start_tok, g.start_col, g.start_line = len(self.out), self.col, self.line
        g.sawH = g.sawA = g.a_before_h = False
        self.groups.append(g)
        if kind == 'group' and flat:
            self.open_flat.append(g)
        return g

    def _close(self, g):
        g.end_tok = len(self.out)
        if g.kind == 'group' and g.flat:
            self.open_flat.pop()

    def go(self, t, mode, indent, path=()):
        k = t[0]
        if k == 't':
            self.text(t[1])
        elif k == 'nil':
            pass
        elif k == 'hardline':
            for g in self.open_flat:
                g.sawH = True
            self.newline(indent)
        elif k == 'line' or k == 'softline':
            if mode == FLAT:
                if k == 'line':
                    self.text(' ')
            else:
                self.newline(indent)
        elif k == 'cat':
            for i, c in enumerate(t[1]):
                self.go(c, mode, indent, path + (i,))
        elif k == 'nest':
            self.go(t[2], mode, indent + t[1], path + (0,))
        elif k == 'align':
            self.go(t[1], mode, self.col, path + (0,))
        elif k == 'hang':
            self.go(t[2], mode, self.col + t[1], path + (0,))
        elif k == 'group':
            c = self.choose()
            g = self._open('group', t, path, c == 0, indent)
            self.go(t[1], FLAT if c == 0 else BREAK, indent, path + (0,))
            self._close(g)
        elif k == 'fc':
            if mode == FLAT:
                self.go(t[2], mode, indent, path + (1,))
            else:
                self.go(t[1], mode, indent, path + (0,))
        elif k == 'ab':
            self.ab_marks.append((len(self.out), len(self.groups)))
            for g in self.open_flat:
                g.sawA = True
                if not g.sawH:
                    g.a_before_h = True
            self.go(t[1], BREAK, indent, path + (0,))
        elif k == 'fill':
            for i, c in enumerate(t[1]):
                ch = self.choose()
                g = self._open('fillitem', c, path + (i,), ch == 0, indent)
                self.go(c, FLAT if ch == 0 else BREAK, indent, path + (i,))
                self._close(g)
        elif k == 'ctx' or k == 'rctx':
            self.go(t[1], mode, indent, path + (0,))
        elif k == 'ann':
            self.out.append(('+', t[1]))
            self.go(t[2], mode, indent, path + (0,))
            self.out.append(('-', t[1]))
        else:
            raise ValueError(t)


def layout_set(term, limit=4096):
    """All renderings of `term`: dict tokens -> list of Rendering (one per assignment of the
    choice points actually visited).  Top level is rendered in break mode at indentation 0."""
    out = {}
    stack = [()]
    n = 0
    while stack:
        prefix = stack.pop()
        r = Rendering(prefix)
        r.go(term, BREAK, 0)
        n += 1
        if n > limit:
            raise OverflowError('layout set larger than %d' % limit)
        out.setdefault(tuple(r.out), []).append(r)
        for i in range(len(prefix), len(r.choices)):
            stack.append(tuple(r.choices[:i]) + (1,))
    return out


def observe(sdocs):
    """SDoc stream of the real engine -> token tuple (empty texts dropped)."""
    from prettyprinter.sdoctypes import SLine, SAnnotationPush, SAnnotationPop
    from prettyprinter.syntax import Token
    out = []
    for s in sdocs:
        if isinstance(s, str):
            if s:
                out.append(s)
        elif isinstance(s, SLine):
            out.append(s.indent)
        elif isinstance(s, SAnnotationPush):
            v = s.value
            out.append(('+', 'T:' + v.name if isinstance(v, Token) else v))
        elif isinstance(s, SAnnotationPop):
            v = s.value
            out.append(('-', 'T:' + v.name if isinstance(v, Token) else v))
        else:
            out.append(('?', repr(s)))
    return tuple(out)


def tokens_text(tokens):
    """Raw text of a token stream (no trimming)."""
    parts = []
    for t in tokens:
        if isinstance(t, str):
            parts.append(t)
        elif isinstance(t, int):
            parts.append('\n' + ' ' * t)
    return ''.join(parts)


def ribbon_width(width, frac):
    """As stated in the anchors of C05: round(frac * width) clamped to [0, width]."""
    return max(0, min(width, round(frac * width)))


def config_lattice(term, extra=((80, 0.9), (80, 1.0))):
    """Every integer (width, ribbon) pair with 1 <= width <= W, 0 <= ribbon <= width, as
    (width, ribbon_frac, ribbon); ribbon 0 is reached with the positive fraction 0.4/width."""
    W = max(1, text_len(term) + 2)
    for w in range(1, W + 1):
        yield (w, 0.4 / w, 0)
        for r in range(1, w + 1):
            yield (w, r / w, r)
    for w, f in extra:
        yield (w, f, ribbon_width(w, f))


def wrap_variants(term, kind='rctx'):
    """The term with each single subterm position, in turn, wrapped in [kind, .]."""
    yield [kind, term]
    k = term[0]
    if k in ('cat', 'fill'):
        for i, c in enumerate(term[1]):
            for v in wrap_variants(c, kind):
                yield [k, term[1][:i] + [v] + term[1][i + 1:]]
    elif k in ('nest', 'hang', 'ann'):
        for v in wrap_variants(term[2], kind):
            yield [k, term[1], v]
    elif k == 'fc':
        for v in wrap_variants(term[1], kind):
            yield [k, v, term[2]]
        for v in wrap_variants(term[2], kind):
            yield [k, term[1], v]
    elif k in ('group', 'ab', 'align', 'ctx', 'rctx'):
        for v in wrap_variants(term[1], kind):
            yield [k, v]
