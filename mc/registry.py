"""Snapshot / restore of the package's module-level registries (used by every stateful explorer).

The live singledispatch registry is reached through the closure cells of
``pretty_dispatch.register`` - read-only knowledge of functools, no hook in the package."""
import importlib


class Registries:
    def __init__(self):
        self.pp = importlib.import_module('prettyprinter.prettyprinter')
        reg = self.pp.pretty_dispatch.register
        cells = dict(zip(reg.__code__.co_freevars, reg.__closure__))
        self.registry = cells['registry'].cell_contents
        self.dispatch_cache = cells['dispatch_cache'].cell_contents
        assert self.registry is not None and self.pp.pretty_dispatch.registry[object] is self.registry[object]
        self.snap()

    def snap(self):
        pp = self.pp
        self.base_registry = dict(self.registry)
        self.base_deferred = dict(pp._DEFERRED_DISPATCH_BY_NAME)
        self.base_pred = list(pp._PREDICATE_REGISTRY)
        self.base_cnt = dict(pp._cnamedtuple_fieldnames_by_class)

    def restore(self):
        pp = self.pp
        self.registry.clear()
        self.registry.update(self.base_registry)
        pp._DEFERRED_DISPATCH_BY_NAME.clear()
        pp._DEFERRED_DISPATCH_BY_NAME.update(self.base_deferred)
        pp._PREDICATE_REGISTRY[:] = self.base_pred
        pp._cnamedtuple_fieldnames_by_class.clear()
        pp._cnamedtuple_fieldnames_by_class.update(self.base_cnt)
        pp.pretty_dispatch._clear_cache()


_R = []


def get():
    if not _R:
        _R.append(Registries())
    return _R[0]
