"""Snapshot / restore of the package's module-level mutable state (used by every stateful explorer).

Nothing here relies on the *names* of the package's internals: the snapshot covers every
module-level dict / list / set / WeakKeyDictionary found in the package's modules and the registry
and cache of every functools.singledispatch function bound there (reached through the closure
cells of its ``register`` attribute - read-only knowledge of functools, no hook in the package).
A refactoring that renames or restructures those globals is still snapshotted; the few places that
*read* specific registries (to build a canonical state) go through the accessors below, which
degrade to "unknown" instead of failing.
"""
import importlib
import os
import sys
import weakref


def _pkgdir():
    import prettyprinter
    return os.path.dirname(os.path.abspath(prettyprinter.__file__))


class Registries:
    def __init__(self):
        self.pp = importlib.import_module('prettyprinter.prettyprinter')
        self.pkgdir = _pkgdir()
        self.dispatchers = []       # (function, registry dict, dispatch cache)
        self.snap()

    # ------------------------------------------------------------------ discovery
    def modules(self):
        for name, mod in list(sys.modules.items()):
            f = getattr(mod, '__file__', None)
            if f and os.path.abspath(f).startswith(self.pkgdir):
                yield mod

    def _find_dispatchers(self):
        out, seen = [], set()
        for mod in self.modules():
            for name, val in list(vars(mod).items()):
                reg = getattr(val, 'register', None)
                if callable(val) and reg is not None and hasattr(val, 'dispatch') and getattr(reg, '__closure__', None):
                    if id(val) in seen:
                        continue
                    cells = dict(zip(reg.__code__.co_freevars, reg.__closure__))
                    try:
                        registry = cells['registry'].cell_contents
                        cache = cells['dispatch_cache'].cell_contents
                    except (KeyError, ValueError):
                        continue
                    seen.add(id(val))
                    out.append((val, registry, cache))
        return out

    @staticmethod
    def _attrs_of(obj):
        names = list(getattr(obj, '__dict__', {}) or {})
        for klass in type(obj).__mro__:
            sl = getattr(klass, '__slots__', ())
            names.extend([sl] if isinstance(sl, str) else list(sl))
        return [n for n in names if isinstance(n, str) and not n.startswith('__')]

    # ------------------------------------------------------------------ snapshot / restore
    def snap(self):
        self.dispatchers = self._find_dispatchers()
        self.base_dispatch = [(f, reg, dict(reg)) for (f, reg, cache) in self.dispatchers]
        self.base_containers = []      # (module, name, object, shallow copy)
        for mod in self.modules():
            for name, val in list(vars(mod).items()):
                if name.startswith('__'):
                    continue
                if isinstance(val, (dict, list, set)) or isinstance(val, weakref.WeakKeyDictionary):
                    try:
                        copy = dict(val) if isinstance(val, (dict, weakref.WeakKeyDictionary)) else type(val)(val)
                    except Exception:     # noqa
                        continue
                    self.base_containers.append((mod, name, val, copy))
                elif getattr(type(val), '__module__', '').startswith('prettyprinter') and not isinstance(val, type):
                    # an object of one of the package's own classes bound at module level (e.g. a registry
                    # object): its container attributes are module state as well
                    for attr in self._attrs_of(val):
                        try:
                            inner = getattr(val, attr)
                        except Exception:     # noqa
                            continue
                        if isinstance(inner, (dict, list, set)) or isinstance(inner, weakref.WeakKeyDictionary):
                            try:
                                copy = dict(inner) if isinstance(inner, (dict, weakref.WeakKeyDictionary)) else type(inner)(inner)
                            except Exception:     # noqa
                                continue
                            self.base_containers.append((val, attr, inner, copy))
        # named views used by the explorers' canonical states (None when the package has no such global)
        self.registry = self.dispatchers and self._main_registry() or {}
        self.base_registry = dict(self.registry)
        self.base_deferred = dict(self.deferred())
        self.base_pred = list(self.predicates())

    def _main_registry(self):
        f = getattr(self.pp, 'pretty_dispatch', None)
        for (fn, reg, cache) in self.dispatchers:
            if fn is f:
                return reg
        return self.dispatchers[0][1]

    def restore(self):
        for (fn, reg, base) in self.base_dispatch:
            reg.clear()
            reg.update(base)
            try:
                fn._clear_cache()
            except Exception:     # noqa
                pass
        for (mod, name, obj, copy) in self.base_containers:
            try:
                if isinstance(obj, list):
                    obj[:] = copy
                else:
                    obj.clear()
                    obj.update(copy)
            except Exception:     # noqa
                pass
            if getattr(mod, name, None) is not obj:
                # the global was rebound (e.g. a defaults dict replaced wholesale): bind the original again
                try:
                    setattr(mod, name, obj)
                except Exception:     # noqa
                    pass

    # ------------------------------------------------------------------ accessors that degrade gracefully
    def _containers(self):
        for (_owner, _name, obj, _copy) in self.base_containers:
            yield obj

    def deferred(self):
        """The by-name registry: the dict the package keeps for printers registered by qualified name."""
        d = getattr(self.pp, '_DEFERRED_DISPATCH_BY_NAME', None)
        if isinstance(d, dict):
            return d
        if not hasattr(self, '_deferred_found'):
            self._deferred_found = None
            for obj in self._containers():
                # recognised by shape on the import-time snapshot: str keys naming 'module.Class', callable values
                if isinstance(obj, dict) and obj and all(isinstance(k, str) and '.' in k for k in obj) and all(callable(v) for v in obj.values()):
                    self._deferred_found = obj
                    break
        return self._deferred_found if self._deferred_found is not None else {}

    def predicates(self):
        p = getattr(self.pp, '_PREDICATE_REGISTRY', None)
        if isinstance(p, list):
            return p
        return []

    def structseq_cache_names(self):
        c = getattr(self.pp, '_cnamedtuple_fieldnames_by_class', None)
        try:
            return sorted(k.__module__ + '.' + k.__qualname__ for k in c.keys())
        except Exception:     # noqa
            return None


_R = []


def get():
    if not _R:
        _R.append(Registries())
    return _R[0]
