"""A deterministic cooperative scheduler for real threading.Thread objects plus the iterative
preemption-bounding explorer of the guidance.

Each worker thread installs a sys.settrace tracer that fires on 'line' events in frames whose
code lives inside the package under test; at every such event the running thread asks the
scheduler which thread runs next and hands over a per-thread semaphore baton.  Exactly one thread
runs at a time, so a schedule is a list of integers (index into the canonically ordered enabled
set: the running thread first if still enabled, then ascending ids).  An out-of-range choice and a
divergence while replaying a prefix are hard errors; every wait has a watchdog.
"""
import ast
import functools
import os
import sys
import threading

# Files outside the package whose Python-level lines are scheduling points too: functools.py holds
# singledispatch (dispatch, register, _find_impl iterate and mutate the printer registry in Python).
EXTRA_TRACED_FILES = {functools.__file__}

WATCHDOG = 10.0


class ScheduleError(Exception):
    pass


# ----------------------------------------------------------------------------- cooperative locks
# A real threading.Lock inside the package would hang a cooperative scheduler (the thread that is
# switched to blocks on a lock whose owner is parked).  Locks found in the package's modules are
# therefore replaced by these: a contended acquire disables the thread and yields to the scheduler.

CURRENT = {'sched': None}
_ME = threading.local()


class CoopLock:
    reentrant = False

    def __init__(self):
        self._owner = None
        self._count = 0

    def acquire(self, blocking=True, timeout=-1):
        me = getattr(_ME, 'index', None)
        sched = CURRENT['sched']
        ident = threading.get_ident()
        while True:
            if self._owner is None or (self.reentrant and self._owner == ident):
                self._owner = ident
                self._count += 1
                return True
            if not blocking:
                return False
            if sched is None or me is None:
                raise ScheduleError('cooperative lock contended outside a scheduled thread')
            sched.wait_for_lock(me, self)

    def release(self):
        self._count -= 1
        if self._count <= 0:
            self._owner, self._count = None, 0
            sched = CURRENT['sched']
            if sched is not None:
                sched.lock_released(self)

    def locked(self):
        return self._owner is not None

    __enter__ = acquire

    def __exit__(self, *exc):
        self.release()


class CoopRLock(CoopLock):
    reentrant = True


class _ThreadingProxy:
    """Stands in for the `threading` module inside the package: Lock/RLock are cooperative."""
    Lock = CoopLock
    RLock = CoopRLock

    def __getattr__(self, name):
        return getattr(threading, name)


def cooperate_locks(pkgdir):
    """Replace lock objects / lock factories reachable from the package's module namespaces: module
    globals, and (two levels deep) attributes of the objects bound there - a refactoring may keep its
    lock inside a registry object.  -> count"""
    import _thread
    import types
    lock_types = (type(_thread.allocate_lock()), type(threading.RLock()))

    def coop(val):
        return CoopRLock() if isinstance(val, lock_types[1]) else CoopLock()

    def attrs_of(obj):
        names = list(getattr(obj, '__dict__', {}) or {})
        for klass in type(obj).__mro__:
            sl = getattr(klass, '__slots__', ())
            names.extend([sl] if isinstance(sl, str) else list(sl))
        return [n for n in names if isinstance(n, str) and not n.startswith('__')]

    def scan(obj, depth):
        n = 0
        if depth == 0 or isinstance(obj, (types.ModuleType, types.FunctionType, type, str, bytes, int, float, tuple, frozenset)):
            return 0
        for a in attrs_of(obj):
            try:
                val = getattr(obj, a)
            except Exception:     # noqa
                continue
            if isinstance(val, lock_types):
                try:
                    setattr(obj, a, coop(val))
                    n += 1
                except Exception:     # noqa
                    pass
            elif not isinstance(val, CoopLock):
                n += scan(val, depth - 1)
        return n

    n = 0
    for mod in list(sys.modules.values()):
        f = getattr(mod, '__file__', None)
        if not f or not os.path.abspath(f).startswith(pkgdir):
            continue
        for name, val in list(vars(mod).items()):
            if isinstance(val, lock_types):
                setattr(mod, name, coop(val))
                n += 1
            elif val is threading.Lock:
                setattr(mod, name, CoopLock)
                n += 1
            elif val is threading.RLock:
                setattr(mod, name, CoopRLock)
                n += 1
            elif val is threading:
                setattr(mod, name, _ThreadingProxy())
                n += 1
            elif not name.startswith('__'):
                n += scan(val, 2)
    return n


class Sched:
    def __init__(self, bodies, choices, pkg, visible=None, opcodes=False):
        self.bodies = bodies
        self.n = len(bodies)
        self.sems = [threading.Semaphore(0) for _ in bodies]
        self.done = [False] * self.n
        self.results = [None] * self.n
        self.choices = list(choices)
        self.pos = 0
        self.trace = []          # (n_enabled, chosen index, running still enabled, visible line)
        self.main = threading.Semaphore(0)
        self.error = None
        self.pkg = pkg
        self.visible = visible   # set of (filename, function name) or None = every line is visible
        self.blocked = {}        # thread index -> lock it waits for (cooperative locks only)
        self.opcodes = opcodes   # also switch between the bytecodes of one line, inside visible functions
        self.tls = threading.local()

    def pick(self, me, vis):
        enabled = [i for i in range(self.n) if not self.done[i] and i not in self.blocked]
        if not enabled:
            if any(not self.done[i] for i in self.blocked):
                self.error = 'deadlock: every unfinished thread waits for a lock'
            return None
        running = me is not None and me in enabled
        if running:
            enabled = [me] + [i for i in enabled if i != me]
        c = self.choices[self.pos] if self.pos < len(self.choices) else 0
        if c >= len(enabled):
            self.error = 'choice %d out of range (%d enabled) at point %d' % (c, len(enabled), self.pos)
            c = 0
        self.pos += 1
        self.trace.append((len(enabled), c, running, vis))
        return enabled[c]

    def point(self, me, vis):
        nxt = self.pick(me, vis)
        if nxt != me:
            self.sems[nxt].release()
            if not self.sems[me].acquire(timeout=WATCHDOG):
                self.error = 'watchdog: thread %d never got the baton back' % me
                raise ScheduleError(self.error)

    def wait_for_lock(self, me, lock):
        """Called by a cooperative lock that is held by another thread: `me` is disabled until the
        lock is released; control goes to another enabled thread."""
        self.blocked[me] = lock
        nxt = self.pick(None, True)
        if nxt is None:
            self.error = self.error or 'deadlock: thread %d waits for a lock nobody can release' % me
            self.main.release()
            raise ScheduleError(self.error)
        self.sems[nxt].release()
        if not self.sems[me].acquire(timeout=WATCHDOG):
            self.error = 'watchdog: thread %d never got the baton back' % me
            raise ScheduleError(self.error)

    def lock_released(self, lock):
        for i in [i for i, l in self.blocked.items() if l is lock]:
            del self.blocked[i]

    def tracer(self, me):
        visible = self.visible

        opcodes = self.opcodes

        def local(frame, event, arg):
            if event == 'line':
                code = frame.f_code
                vis = True if visible is None else ((code.co_filename, code.co_name) in visible)
                self.point(me, vis)
            elif event == 'opcode':
                self.point(me, True)
            elif event == 'call' and opcodes:
                code = frame.f_code
                if visible is not None and (code.co_filename, code.co_name) in visible:
                    frame.f_trace_opcodes = True
            return local

        def local_extra(frame, event, arg):
            if event == 'line':
                self.point(me, True)
            return local_extra

        def glob(frame, event, arg):
            fn = frame.f_code.co_filename
            if not fn.startswith(self.pkg):
                # singledispatch's own Python code: lines are scheduling points, always "visible"
                return local_extra if fn in EXTRA_TRACED_FILES else None
            if opcodes and visible is not None and (frame.f_code.co_filename, frame.f_code.co_name) in visible:
                frame.f_trace_opcodes = True
            return local
        return glob

    def worker(self, i):
        if not self.sems[i].acquire(timeout=WATCHDOG):
            return
        CURRENT['sched'], self.tls.me = self, i
        _ME.index = i
        sys.settrace(self.tracer(i))
        try:
            try:
                self.results[i] = ('ok', self.bodies[i]())
            except ScheduleError:
                self.results[i] = ('sched-error', None)
            except BaseException as e:     # noqa
                self.results[i] = ('exc', type(e).__name__ + ': ' + str(e)[:80])
        finally:
            sys.settrace(None)
            _ME.index = None
            self.done[i] = True
            nxt = self.pick(None, True)
            if nxt is None:
                self.main.release()
            else:
                self.sems[nxt].release()

    def run(self):
        ths = [threading.Thread(target=self.worker, args=(i,), daemon=True) for i in range(self.n)]
        for t in ths:
            t.start()
        first = self.pick(None, True)
        self.sems[first].release()
        if not self.main.acquire(timeout=WATCHDOG * 4):
            raise ScheduleError(self.error or 'watchdog: execution did not finish')
        for t in ths:
            t.join(5)
        if self.error:
            raise ScheduleError(self.error)
        return self.results, self.trace


def preemptions(trace, upto):
    return sum(1 for (ne, c, running, vis) in trace[:upto] if running and c != 0)


def alternatives(trace, start, bound, visible_only):
    """Prefixes that deviate from `trace` at a point >= start within the preemption budget."""
    out = []
    pre = preemptions(trace, start)
    for j in range(start, len(trace)):
        ne, c, running, vis = trace[j]
        cost = pre + (1 if running else 0)
        if cost <= bound and ne > 1 and (vis or not running or not visible_only):
            base = [t[1] for t in trace[:j]]
            for alt in range(1, ne):
                out.append(base + [alt])
        if running and c != 0:
            pre += 1
    return out


def explore_from(prefixes, run_one, bound, visible_only, on_execution, limit=None):
    """DFS below the given prefixes.  run_one(prefix) -> (results, trace)."""
    stack = list(prefixes)
    n = 0
    while stack:
        prefix = stack.pop()
        results, trace = run_one(prefix)
        # replay divergence: the executed choices must start with the prefix
        got = [t[1] for t in trace[:len(prefix)]]
        if got != list(prefix):
            raise ScheduleError('divergence while replaying prefix %r: executed %r' % (prefix, got))
        n += 1
        on_execution(prefix, results, trace)
        stack.extend(alternatives(trace, len(prefix), bound, visible_only))
        if limit and n >= limit:
            return n, False
    return n, True


# ----------------------------------------------------------------------------- visible lines

MUTABLE_CTORS = {'dict', 'list', 'set', 'WeakKeyDictionary', 'WeakValueDictionary', 'singledispatch',
                 'OrderedDict', 'defaultdict', 'deque', 'Counter', 'bytearray'}


def visible_functions(pkgdir):
    """Functions that can touch shared mutable state, computed from the source (not listed by hand):
    they name a module-level binding that holds a mutable container, rebind a module global with
    `global`, or store to an attribute of self outside __init__."""
    vis = set()
    for root, _dirs, files in os.walk(pkgdir):
        if 'extras' in root:
            continue
        for fn in files:
            if not fn.endswith('.py'):
                continue
            path = os.path.join(root, fn)
            try:
                tree = ast.parse(open(path).read())
            except SyntaxError:
                continue
            shared = set()
            for node in tree.body:
                targets = []
                if isinstance(node, ast.Assign):
                    targets, value = node.targets, node.value
                elif isinstance(node, ast.AnnAssign) and node.value is not None:
                    targets, value = [node.target], node.value
                else:
                    continue
                mutable = isinstance(value, (ast.Dict, ast.List, ast.Set, ast.ListComp, ast.DictComp, ast.SetComp))
                if isinstance(value, ast.Call):
                    f = value.func
                    name = f.id if isinstance(f, ast.Name) else (f.attr if isinstance(f, ast.Attribute) else '')
                    mutable = mutable or name in MUTABLE_CTORS
                if mutable:
                    for t in targets:
                        if isinstance(t, ast.Name):
                            shared.add(t.id)
            for node in ast.walk(tree):
                if not isinstance(node, (ast.FunctionDef, ast.AsyncFunctionDef)):
                    continue
                touches = False
                for sub in ast.walk(node):
                    if isinstance(sub, ast.Global):
                        touches = True
                    elif isinstance(sub, ast.Name) and sub.id in shared:
                        touches = True
                    elif (isinstance(sub, ast.Attribute) and isinstance(sub.ctx, ast.Store)
                          and isinstance(sub.value, ast.Name) and sub.value.id == 'self'
                          and node.name != '__init__'):
                        touches = True
                if touches:
                    vis.add((path, node.name))
    return vis
