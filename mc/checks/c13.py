"""C13 - cycles are cut exactly at back-references; shared substructure prints in full.

Exhaustive over every rooted directed multigraph with <= 3 nodes (node kinds list / dict / tuple
holding a list, 0..2 ordered out-edges to any node incl. itself, optional int leaf), every node
reachable from the root; 4-node graphs with out-degree <= 1 and ring / lollipop families up to 8
nodes in the thorough tier.  Reference: a DFS that carries the on-path set and emits a marker
exactly on edges to a node on the current path.  Histories: print g1, g2, g1 again, and print g
after a print of g that was aborted by a printer returning a non-Doc; every output must equal the
first-call output.
"""
import ast
import itertools
import re

from .. import core, oracles

PROPERTY = 'C13'
LEVEL = 'model_checking'

KINDS = ('list', 'dict', 'tup')
TNAME = {'list': 'list', 'dict': 'dict', 'tup': 'tuple', 'cdict': 'dict'}
KINDS_C = ('list', 'dict', 'tup', 'cdict')     # cdict: a dict whose values carry comments
KINDS_T = ('cdict', 'odict', 'list')             # odict: an OrderedDict - its printer builds temporary lists/tuples
TNAME['odict'] = 'OrderedDict'
KINDS_U = ('list', 'dict', 'unode')            # unode: a user object whose printer derives its context (assoc, ...)
TNAME['unode'] = 'UNode'
WATCHDOG_S = 3          # a print of a <= 8-node graph takes well under a millisecond
MAX_TIMEOUTS_PER_CHUNK = 4
MARK = re.compile(r'<Recursion on (\w+) with id=(-?\d+)>')


class Bad:
    """Its printer returns an int: pformat must raise ValueError (aborting the print)."""


class UNode:
    """A user container; its printer passes a *derived* context on to its children."""

    def __init__(self):
        self.items = []


class Probe:
    """Its printer records len(ctx.visited) at entry."""
    seen = []


_reg = []


def ensure_registered():
    if _reg:
        return
    from prettyprinter import register_pretty

    @register_pretty(Bad)
    def pretty_bad(v, ctx):
        return 42

    @register_pretty(UNode)
    def pretty_unode(v, ctx):
        from prettyprinter import pretty_call
        # every public way of deriving a context must keep the cycle-detection state
        n = len(v.items)
        derived = (ctx.assoc('seen', n) if n % 3 == 0 else ctx.use_multiline_strategy('MULTILINE_STRATEGY_PLAIN') if n % 3 == 1
                   else ctx.assoc('a', 1).nested_call())
        return pretty_call(derived, UNode, *v.items)

    @register_pretty(Probe)
    def pretty_probe(v, ctx):
        try:
            Probe.seen.append(len(ctx.visited))
        except Exception:     # noqa
            Probe.seen.append(None)
        return 'PROBE'
    _reg.append(1)


def build(spec, leafobj=None):
    """spec: tuple of (kind, children, leaf).  -> (nodes, inner lists)"""
    nodes, inner = [], []
    for kind, ch, leaf in spec:
        if kind == 'list':
            nodes.append([])
            inner.append(None)
        elif kind in ('dict', 'cdict'):
            nodes.append({})
            inner.append(None)
        elif kind == 'unode':
            nodes.append(UNode())
            inner.append(None)
        elif kind == 'odict':
            import collections
            nodes.append(collections.OrderedDict())
            inner.append(None)
        else:
            lst = []
            nodes.append((lst,))
            inner.append(lst)
    for i, (kind, ch, leaf) in enumerate(spec):
        tgt = nodes[i] if kind != 'tup' else inner[i]
        items = [nodes[c] for c in ch]
        if leaf is not None:
            items = [leaf if leafobj is None else leafobj] + items
        if kind in ('dict', 'odict'):
            for j, x in enumerate(items):
                tgt['k%d' % j] = x
        elif kind == 'unode':
            tgt.items.extend(items)
        elif kind == 'cdict':
            from prettyprinter import comment
            for j, x in enumerate(items):
                tgt['k%d' % j] = comment(x, 'c%d' % j)
        else:
            tgt.extend(items)
    return nodes, inner


def reference(spec, leaftext=None):
    """Expected rendering (as an expression with R_<type>_<node> identifiers for markers) and the
    expected visited-set sizes seen by a probe leaf, by a DFS with an on-path set."""
    probes = []

    def r(i, path, depth):
        kind, ch, leaf = spec[i]
        if ('N', i) in path:
            return 'R_%s_N%d' % (TNAME[kind], i)
        path = path | {('N', i)}
        depth += 1
        items = []
        if kind == 'tup':
            depth += 1          # the inner list is being printed too
        if leaf is not None:
            items.append(repr(leaf) if leaftext is None else leaftext)
            probes.append(depth + 1)
        items += [r(c, path, depth) for c in ch]
        if kind == 'tup':
            return '([' + ', '.join(items) + '],)'
        if kind == 'list':
            return '[' + ', '.join(items) + ']'
        if kind == 'unode':
            return 'mc.checks.c13.UNode(' + ', '.join(items) + ')'
        if kind == 'odict':
            return 'collections.OrderedDict([' + ', '.join("('k%d', %s)" % (j, x) for j, x in enumerate(items)) + '])'
        return '{' + ', '.join("'k%d': %s" % (j, x) for j, x in enumerate(items)) + '}'      # dict and cdict
    return r(0, frozenset(), 0), probes


def normalise(out, nodes, inner):
    ids = {}
    for i, nd in enumerate(nodes):
        ids[id(nd)] = 'N%d' % i
        if inner[i] is not None:
            ids[id(inner[i])] = 'I%d' % i

    def sub(m):
        return 'R_%s_%s' % (m.group(1), ids.get(int(m.group(2)), 'UNKNOWN'))
    return MARK.sub(sub, out)


def reachable(spec):
    seen, todo = {0}, [0]
    while todo:
        for c in spec[todo.pop()][1]:
            if c not in seen:
                seen.add(c)
                todo.append(c)
    return len(seen) == len(spec)


def node_options(n, maxdeg, kinds=KINDS):
    out = []
    for kind in kinds:
        for deg in range(0, maxdeg + 1):
            for ch in itertools.product(range(n), repeat=deg):
                for leaf in (None, 7):
                    out.append((kind, ch, leaf))
    return out


def graphs(n, maxdeg=2, kinds=KINDS):
    for spec in itertools.product(node_options(n, maxdeg, kinds), repeat=n):
        if reachable(spec):
            yield spec


def families():
    for n in range(2, 9):
        for kinds in (('list',) * n, ('dict',) * n, ('tup',) * n, tuple(KINDS[i % 3] for i in range(n))):
            # ring
            yield tuple((kinds[i], ((i + 1) % n,), 7 if i == n - 1 else None) for i in range(n))
            # lollipop: chain into a ring of the last 2..3 nodes, plus a shared (non-cyclic) leaf container
            for back in (n - 1, max(0, n - 3)):
                yield tuple((kinds[i], ((i + 1,) if i < n - 1 else (back,)) + ((n - 1,) if i == 0 else ()), None) for i in range(n))
            # diamond sharing without a cycle
            yield tuple((kinds[i], ((i + 1, i + 1) if i < n - 1 else ()), 7 if i == n - 1 else None) for i in range(n))


def deep_families():
    """Chains of 25 / 60 nested containers whose last node points back to the root / the middle / itself,
    and one that only shares (no cycle)."""
    for n in (25, 60):
        for kinds in (('list',) * n, ('dict',) * n, tuple(('list', 'dict')[i % 2] for i in range(n))):
            for back in (0, n // 2, n - 1, None):
                yield tuple((kinds[i], ((i + 1,) if i < n - 1 else (() if back is None else (back,))), 7 if i == n - 1 else None)
                            for i in range(n))


def pf(v, **kw):
    try:
        with core.deadline(WATCHDOG_S):
            return oracles.run_pformat(v, **kw)
    except core.Timeout:
        r = oracles.Run()
        r.text, r.exc, r.warnings = None, 'TIMEOUT: did not terminate within %s s' % WATCHDOG_S, []
        return r
    except RecursionError as e:
        r = oracles.Run()
        r.text, r.exc, r.warnings = None, 'RecursionError: %s' % e, []
        return r


def check_graph(spec, part, widths=(10 ** 6, 20)):
    nodes, inner = build(spec)
    exp, _ = reference(spec)
    want = ast.dump(ast.parse(exp, mode='eval'))
    nmarks = exp.count('R_')
    first = {}
    for w in widths:
        part.n += 1
        case = {'graph': [list(map(lambda x: list(x) if isinstance(x, tuple) else x, nd)) for nd in spec], 'width': w}
        r = pf(nodes[0], width=w, ribbon_width=w)
        if not r.ok():
            part.violation('timeout-or-exception' if r.exc else 'warning', case, r.exc or r.warnings[:1])
            continue
        o = normalise(r.text, nodes, inner)
        try:
            got = ast.dump(oracles.parse_expr(o))
        except SyntaxError as e:
            part.violation('not-parsable', case, {'output': r.text, 'why': str(e)})
            continue
        if got != want:
            part.violation('markers-differ-from-reference-dfs', case, {'output': o, 'expected': exp})
        first[w] = r.text
    if nmarks:
        part.nontrivial += 1
        if len(part.samples) < 1 and nmarks >= 2:
            part.sample({'graph': repr(spec), 'expected': exp})
    return nodes, inner, first


def check_residue(spec, part):
    """print g; print g again; abort a print of g (bad printer in place of the leaf); print g."""
    ensure_registered()
    nodes, inner, first = check_graph(spec, part, widths=(60,))
    if 60 not in first:
        return
    case = {'graph': repr(spec), 'width': 60}
    part.n += 1
    again = pf(nodes[0], width=60, ribbon_width=60)
    if again.text != first[60]:
        part.violation('second-print-differs', case, {'first': first[60], 'second': again.text or again.exc})
    if any(leaf is not None for (_, _, leaf) in spec):
        bnodes, binner = build(spec, leafobj=Bad())
        part.n += 1
        r = pf(bnodes[0], width=60, ribbon_width=60)
        # whether the failure surfaces as ValueError or is contained is C14's business; here the
        # aborted visit must not make the (never cyclic) Bad object look like a back-reference
        if r.text is not None and 'Recursion on Bad' in r.text:
            part.violation('marker-on-object-that-does-not-contain-itself', case, {'output': r.text})
        part.n += 1
        # the aborted print left the containers of bnodes "being printed"; printing them again
        # (with the bad leaf replaced) must show no recursion marker that a first call would not show
        for i, (kind, ch, leaf) in enumerate(spec):
            tgt = bnodes[i] if kind != 'tup' else binner[i]
            if leaf is not None:
                if kind == 'dict':
                    tgt['k0'] = 7
                else:
                    tgt[0] = 7
        after = pf(bnodes[0], width=60, ribbon_width=60)
        a = normalise(after.text or '', bnodes, binner)
        b = normalise(first[60], nodes, inner)
        if a != b:
            part.violation('residue-after-aborted-print', case, {'after_abort': a, 'first_call': b, 'exc': after.exc})
        # probe leaf: the visited set seen at entry has exactly the DFS depth (optional, if observable)
        Probe.seen = []
        pnodes, pinner = build(spec, leafobj=Probe())
        _, want = reference(spec, leaftext='PROBE')
        part.n += 1
        pr = pf(pnodes[0], width=60, ribbon_width=60)
        if pr.ok() and None not in Probe.seen and Probe.seen != want:
            part.violation('visited-set-size-differs-from-dfs-depth', case, {'seen': Probe.seen, 'expected': want})


def check_pair(s1, s2, part):
    n1, i1 = build(s1)
    n2, i2 = build(s2)
    a1 = pf(n1[0], width=40).text
    b1 = pf(n2[0], width=40).text
    a2 = pf(n1[0], width=40).text
    part.n += 3
    fresh_b = pf(build(s2)[0][0], width=40).text
    if a1 != a2 or oracles.normalize_ids(b1 or '') != oracles.normalize_ids(fresh_b or ''):
        part.violation('history-dependence', {'g1': repr(s1), 'g2': repr(s2)}, {'a1': a1, 'a2': a2, 'b1': b1, 'fresh_b': fresh_b})


def work(item):
    ensure_registered()
    kind = item[0]
    part = core.Part()
    if kind == 'tgraphs':
        _, n, deg, lo, hi = item
        for spec in itertools.islice(graphs(n, deg, KINDS_T), lo, hi):
            if part.c['viol:timeout-or-exception'] >= MAX_TIMEOUTS_PER_CHUNK:
                break
            check_graph(spec, part, widths=(10 ** 6, 40, 20, 1))
            part.c['graphs'] += 1
    elif kind == 'cgraphs':
        _, n, lo, hi, kinds, needle = item
        for spec in itertools.islice(graphs(n, 2, kinds), lo, hi):
            if part.c['viol:timeout-or-exception'] >= MAX_TIMEOUTS_PER_CHUNK:
                part.c['chunk_cut_short_after_timeouts'] += 1
                break
            if any(nd[0] == needle for nd in spec):
                check_graph(spec, part, widths=(10 ** 6, 20, 1))
                part.c['graphs'] += 1
    elif kind == 'graphs':
        _, n, maxdeg, lo, hi = item
        for spec in itertools.islice(graphs(n, maxdeg), lo, hi):
            if part.c['viol:timeout-or-exception'] >= MAX_TIMEOUTS_PER_CHUNK:
                part.c['chunk_cut_short_after_timeouts'] += 1
                break
            check_graph(spec, part)
            part.c['graphs'] += 1
    elif kind == 'deep':
        for spec in deep_families():
            check_graph(spec, part, widths=(10 ** 6, 79))
            part.c['family_graphs'] += 1
    elif kind == 'families':
        for spec in families():
            check_graph(spec, part, widths=(10 ** 6, 30, 1))
            check_residue(spec, part)
            part.c['family_graphs'] += 1
    elif kind == 'residue':
        _, n, lo, hi = item
        for spec in itertools.islice(graphs(n, 2), lo, hi):
            check_residue(spec, part)
            part.c['residue_graphs'] += 1
    elif kind == 'pairs':
        _, lo, hi, stride, offset = item
        small = list(graphs(1, 2)) + list(graphs(2, 2))
        idx = 0
        for s1 in small[lo:hi]:
            for j, s2 in enumerate(small):
                if (j + idx) % stride == offset % stride:
                    check_pair(s1, s2, part)
                    part.c['pairs'] += 1
            idx += 1
    return part


def run(tier, seed):
    ensure_registered()
    res = core.Result(PROPERTY, LEVEL, tier, seed)
    items, desc = [], []
    for n in (1, 2, 3):
        total = sum(1 for _ in graphs(n, 2))
        items += [('graphs', n, 2, lo, hi) for lo, hi in core.chunks(total, 1 if total < 3000 else 128)]
        desc.append('all rooted graphs with %d nodes (every node reachable), out-degree <= 2: %d' % (n, total))
    for n in (1, 2):
        total = sum(1 for _ in graphs(n, 2, KINDS_C))
        items += [('cgraphs', n, lo, hi, KINDS_C, 'cdict') for lo, hi in core.chunks(total, 32)]
        desc.append('graphs with %d nodes where dict values may carry comments (lazily re-rendered values): %d candidates' % (n, total))
        total = sum(1 for _ in graphs(n, 2, KINDS_U))
        items += [('cgraphs', n, lo, hi, KINDS_U, 'unode') for lo, hi in core.chunks(total, 32)]
        desc.append('graphs with %d nodes incl. user objects whose printers derive their context through assoc / use_multiline_strategy / nested_call: %d candidates' % (n, total))
    for n, deg in ((1, 2), (2, 2), (3, 1)):
        total = sum(1 for _ in graphs(n, deg, KINDS_T))
        items += [('tgraphs', n, deg, lo, hi) for lo, hi in core.chunks(total, 32)]
        desc.append('graphs with %d nodes (out-degree <= %d) over commented dicts, OrderedDicts (whose printer builds temporaries) and lists: %d' % (n, deg, total))
    if tier == 'thorough':
        total = sum(1 for _ in graphs(4, 1))
        items += [('graphs', 4, 1, lo, hi) for lo, hi in core.chunks(total, 128)]
        desc.append('all rooted graphs with 4 nodes, out-degree <= 1: %d' % total)
    items.append(('families',))
    items.append(('deep',))
    desc.append('chains of 25 and 60 nested lists / dicts with a back-reference to the root, the middle, themselves, or none: %d graphs' % sum(1 for _ in deep_families()))
    desc.append('ring / lollipop / diamond families with 2..8 nodes: %d graphs' % sum(1 for _ in families()))
    for n in (1, 2):
        total = sum(1 for _ in graphs(n, 2))
        items += [('residue', n, lo, hi) for lo, hi in core.chunks(total, 16)]
    nsmall = sum(1 for _ in graphs(1, 2)) + sum(1 for _ in graphs(2, 2))
    stride = 16 if tier == 'quick' else 1
    items += [('pairs', lo, hi, stride, seed) for lo, hi in core.chunks(nsmall, 64)]
    desc.append('re-print / aborted-print histories on all %d graphs with <= 2 nodes; ordered pairs (g1, g2, g1): %s'
                % (nsmall, 'every 16th column chosen by seed' if stride > 1 else 'all'))
    res.add(core.pmap(work, items))
    a = res.agg
    res.coverage = {
        'states': a.c['graphs'] + a.c['family_graphs'] + a.c['residue_graphs'] + a.c['pairs'],
        'transitions': a.n, 'traces_validated_against_impl': a.n, 'exhaustive': True,
        'rule': 'state = one object graph (or one print history over graphs); transition = one pformat call on the '
                'real code; markers compared with the back-edges of the reference DFS as ASTs; non-trivial = graphs '
                'with at least one back-edge',
        'spaces': desc,
    }
    res.assumptions = ['marker text "<Recursion on T with id=N>" identifies the object by id()']
    return res


def replay(case):
    ensure_registered()
    part = core.Part()
    if 'g1' in case:
        check_pair(eval(case['g1']), eval(case['g2']), part)
    else:
        g = case['graph']
        spec = eval(g) if isinstance(g, str) else tuple((nd[0], tuple(nd[1]), nd[2]) for nd in g)
        check_graph(spec, part, widths=(case.get('width', 60),))
        check_residue(spec, part)
    lines = ['case: %s' % case]
    for v in part.violations:
        lines.append('violation kind=%s detail=%s' % (v['kind'], v['detail']))
    return not part.violations, '\n'.join(lines)
