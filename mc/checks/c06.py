"""C06 - whatever fits on one line is put on one line.

Part 1 (documents): same space and decision recovery as C05.  A group without a forced break in
its subtree that is *necessarily broken* (broken in every assignment consistent with the output)
must be justified on the reference term: (a) flat, it and the rest of its line would pass
min(width, indentation + ribbon); (b) smart only: a following line indented deeper than
min(column, indentation) would pass the page width; (c) an always_break document starts later in
that lookahead region.

Part 2 (values): for every value of the corpus whose unbounded rendering is one line of L columns,
pformat(v, width=w, ribbon_width=r) is that line for all w, r in [L, L+2] + {2L, 200}.
"""
import itertools

from .. import core, docalg
from . import _decisions as D

PROPERTY = 'C06'
LEVEL = 'model_checking'


def check_term(term, part, configs=None):
    doc = docalg.build(term)
    ls = docalg.layout_set(term)
    interesting = False
    for (width, frac, _r) in (configs if configs is not None else docalg.config_lattice(term)):
        rw = docalg.ribbon_width(width, frac)
        for sname, layout in D.strategies():
            part.n += 1
            case = {'term': term, 'show': docalg.show(term), 'width': width, 'frac': frac, 'strategy': sname}
            try:
                tokens = docalg.observe(layout(doc, width=width, ribbon_frac=frac))
            except Exception as e:     # noqa
                part.violation('layout-exception', case, '%s: %s' % (type(e).__name__, e))
                continue
            part.c['tokens'] += len(tokens)
            rs = ls.get(tokens)
            if rs is None:
                part.violation('not-a-member', case, {'observed': docalg.tokens_text(tokens)})
                continue
            dec = D.decisions(rs)
            for path, v in dec.items():
                if v != 'broken':
                    continue
                g0 = next(x for x in rs[0].groups if x.path == path and x.kind == 'group')
                if D.has_forced(g0.term):
                    part.c['broken_forced_skipped'] += 1
                    continue
                interesting = True
                part.c['broken_group_checks'] += 1
                reason = None
                for r in rs:
                    g = next(x for x in r.groups if x.path == path and x.kind == 'group')
                    reason = D.justify_break(term, r, g, width, rw, sname == 'smart')
                    if reason:
                        break
                if reason:
                    part.c['just:' + reason] += 1
                else:
                    part.violation('broke-although-it-fits', case, {
                        'group_path': list(path), 'group': docalg.show(g0.term), 'width': width,
                        'ribbon_width': rw, 'observed': docalg.tokens_text(tokens)})
    if interesting:
        part.nontrivial += 1
        if len(part.samples) < 2:
            part.sample({'term': docalg.show(term)})


def work(item):
    if item[0] == 'scaled':
        part = core.Part()
        for term, configs in D.scaled_documents()[item[1]:item[2]]:
            check_term(term, part, configs=configs)
            part.c['scaled_terms'] += 1
        return part
    if item[0] == 'many':
        part = core.Part()
        D.check_many_groups(part, PROPERTY)
        return part
    if item[0] == 'wrap':
        part = core.Part()
        a = D.alphabet()
        with core.deadline(3600):
            for term in itertools.islice(a.gen(item[1]), item[2], item[3]):
                for v in docalg.wrap_variants(term, 'rctx'):
                    check_term(v, part)
                    part.c['reentrant_contextual_terms'] += 1
        return part
    n, lo, hi = item
    part = core.Part()
    a = D.alphabet()
    with core.deadline(3600):
        for term in itertools.islice(a.gen(n), lo, hi):
            check_term(term, part)
            part.c['terms'] += 1
    return part


def run(tier, seed):
    from . import c05
    res = core.Result(PROPERTY, LEVEL, tier, seed)
    items, desc = c05.plan(tier, seed)
    res.add(core.pmap(work, items))
    nstates_docs = res.agg.n
    vdesc = None
    try:
        from . import _c06values
    except ImportError:
        _c06values = None
    if _c06values is not None:
        vdesc = _c06values.run_into(res, tier, seed)
    a = res.agg
    res.coverage = {
        'states': a.n, 'transitions': a.c['tokens'] + a.c['value_prints'], 'traces_validated_against_impl': a.n,
        'exhaustive': True,
        'rule': 'part 1: every classic-algebra term of the stated sizes x every (width, ribbon) pair x '
                '{smart, fast}, every necessarily-broken group without a forced break must be justified by '
                'the reference linearisation; part 2: every corpus value whose unbounded rendering is one '
                'line, at widths/ribbons L..L+2, 2L, 200; non-trivial = terms with a checked broken group '
                'plus one-line values that do break at L-1',
        'spaces': desc, 'terms': a.c['terms'], 'reentrant_contextual_terms': a.c['reentrant_contextual_terms'],
        'document_states': nstates_docs,
        'broken_group_checks': a.c['broken_group_checks'],
        'justifications': {k[5:]: v for k, v in a.c.items() if k.startswith('just:')},
        'values_part': vdesc,
    }
    res.assumptions = ['reference semantics and linearisation of mc/docalg.py, mc/checks/_decisions.py']
    return res


def replay(case):
    if 'value' in case:
        from . import _c06values
        return _c06values.replay(case)
    if case.get('family') == 'many-groups':
        part = core.Part()
        D.check_many_groups(part, PROPERTY)
        mine = [v for v in part.violations if v['case'] == case]
        return not mine, '\n'.join(['case: %s' % case] + ['violation kind=%s detail=%s' % (v['kind'], v['detail']) for v in mine])
    part = core.Part()
    check_term(case['term'], part)
    mine = [v for v in part.violations if v['case'].get('width') == case.get('width')
            and v['case'].get('frac') == case.get('frac') and v['case'].get('strategy') == case.get('strategy')]
    lines = ['term: ' + docalg.show(case['term']), 'config: %s' % {k: case.get(k) for k in ('width', 'frac', 'strategy')}]
    for v in mine:
        lines.append('violation kind=%s detail=%s' % (v['kind'], v['detail']))
    return not mine, '\n'.join(lines)
