"""C19 - output depends only on the value and the settings; inputs are never modified.

Corpus: one value per lazily initialised mechanism (printers registered by name: UUID, Enum,
mappingproxy, partial, PurePath, ast nodes; the struct-sequence field-name cache; a dataclass
through a predicate) plus containers, long strings, commented values and the printers that copy
(Counter, deque, defaultdict, ChainMap, OrderedDict), dicts with mutually incomparable keys.
Reference: every value is printed *first* in a fresh interpreter (one subprocess per value).
Exploration: breadth-first search over print(v) transitions from the restored cold snapshot of the
registries, states identified by what can be read back from the real globals (deferred keys still
pending, classes promoted, struct-sequence classes cached); in every state every value is printed
and must give its fresh-interpreter text; all ordered pairs and threefold repetitions are covered
by the search (depth >= 3).  Every print is bracketed by a canonical deep snapshot of the input
(types, ordered contents, attribute dicts, aliasing), and is repeated with the module's `id`
shadowed by an injective perturbation so that dependence on object addresses shows
deterministically.
"""
import builtins
import collections
import os
import subprocess
import sys

from .. import core, oracles, registry, fixtures

PROPERTY = 'C19'
LEVEL = 'model_checking'

CFGS = [{}, {'width': 20}, {'sort_dict_keys': True, 'width': 30}]


def corpus():
    """[(name, value)] - rebuilt identically in every interpreter."""
    import ast
    import datetime
    import enum       # noqa
    import functools
    import pathlib
    import time
    import types
    import uuid
    import dataclasses
    from prettyprinter import comment, trailing_comment
    out = []
    add = lambda n, v: out.append((n, v))     # noqa
    add('uuid', uuid.UUID(int=5))
    add('enum', fixtures.Color.GREEN)
    add('intenum', fixtures.IE.B)
    add('mappingproxy', types.MappingProxyType({'k': [1, 2]}))
    add('partial', functools.partial(fixtures.f, 1, k='v'))
    add('purepath', pathlib.PurePosixPath('/a/b/c'))
    add('astnode', ast.parse('x + 1', mode='eval').body)
    add('struct_time', time.struct_time((2020, 1, 2, 3, 4, 5, 3, 2, 0)))
    add('thread_info', sys.thread_info)
    add('dataclass', fixtures_dc()(3, [4]))
    add('exception', ValueError('a', 2))
    add('list-of-lazy', [uuid.UUID(int=7), fixtures.Color.RED, pathlib.PurePosixPath('x')])
    add('nested', {'a': [1, (2, 3), {'b': {4, 5}}], 'c': 'word ' * 10})
    add('longstr', 'lorem ipsum ' * 12)
    add('bytes', b'\x00\xff' * 20)
    add('commented', comment([1, trailing_comment([2, 3], 'more')], 'top'))
    add('commented-dict', {'k': comment({'j': comment([1, 2], 'inner')}, 'outer')})
    add('counter', collections.Counter('abracadabra'))
    add('deque', collections.deque([1, [2], 3], maxlen=5))
    add('defaultdict', collections.defaultdict(list, {'a': [1]}))
    add('chainmap', collections.ChainMap({'a': 1}, {'b': [2]}))
    add('ordereddict', collections.OrderedDict([('z', 1), ('a', [2])]))
    add('incomparable-keys', {1: 'int', 'a': 'str', (2,): 'tuple', None: 'none', 2.5: 'float', b'b': 'bytes'})
    add('incomparable-keys-2', {'b': 1, 3: 2, 'a': 3, 1: 4})
    add('datetime', datetime.datetime(2020, 1, 2, 3, 4, tzinfo=datetime.timezone(datetime.timedelta(hours=2))))
    add('timedelta', datetime.timedelta(days=800, seconds=1))
    add('namespace', types.SimpleNamespace(b=[1], a='x'))
    add('namedtuple', fixtures.NT(1, [2]))
    add('call', fixtures.Call([1], kw={'a': (1,)}))
    add('subclass', fixtures.SUBCLASSES[dict][0]({'k': fixtures.SUBCLASSES[str][1]('v')}))
    # values that are equal, hash-equal or textually identical but must print differently: anything
    # memoised on an incomplete key shows up as a dependence on which of them was printed first
    text = 'some/long path with/spaces and/slashes ' * 3
    add('collide:str', text)
    add('collide:posixpath', pathlib.PurePosixPath(text))
    add('collide:windowspath', pathlib.PureWindowsPath(text))
    add('collide:bytes', text.encode())
    add('collide:strsub', fixtures.SUBCLASSES[str][0](text))
    add('collide:str-in-list', [text, 1])
    add('collide:str-dict-key', {text: 1})
    add('collide:str-dict-val', {'k': text})
    add('collide:int1', 1)
    add('collide:true', True)
    add('collide:float1', 1.0)
    add('collide:zero', 0.0)
    add('collide:negzero', -0.0)
    add('collide:list', [0, 1, 2])
    add('collide:tuple', (0, 1, 2))
    add('collide:listsub', fixtures.SUBCLASSES[list][0]([0, 1, 2]))
    add('collide:intenum', fixtures.IE.A)
    add('collide:empty-str', '')
    add('collide:empty-bytes', b'')
    try:
        import requests
        resp = requests.Response()
        resp.status_code = 200
        resp._content = b'{"a": 1, "b": [1, 2, 3]}'
        resp.headers['Content-Length'] = '24'
        resp.url = 'http://example.invalid/x'
        resp._content_consumed = True          # the body has been read: the printer looks at headers and text
        add('requests-response', resp)
        unread = requests.Response()
        unread.status_code = 204
        add('requests-response-unread', unread)
        resp2 = requests.Response()
        resp2.status_code = 404
        resp2._content = b'plain body'
        resp2.headers['Content-Type'] = 'text/plain'
        resp2._content_consumed = True
        add('requests-response-2', resp2)
        add('requests-prepared', requests.Request('POST', 'http://example.invalid/p', headers={'X': '1'}, json={'k': [1]}).prepare())
        add('requests-request', requests.Request('GET', 'http://example.invalid/q', params={'a': 1}))
    except Exception:     # noqa
        pass
    cyc = [1]
    cyc.append({'self': cyc})
    add('cycle', cyc)
    shared = [1, 2]
    add('shared', [shared, shared, (shared,)])
    return out


_DC = []


def fixtures_dc():
    if not _DC:
        import dataclasses

        @dataclasses.dataclass
        class PureDC:
            a: int
            b: list = dataclasses.field(default_factory=list)
        PureDC.__module__ = fixtures.__name__
        PureDC.__qualname__ = 'PureDC'
        setattr(sys.modules[fixtures.__name__], 'PureDC', PureDC)
        _DC.append(PureDC)
    return _DC[0]


def setup_process():
    from prettyprinter import install_extras
    fixtures.register()
    install_extras(['dataclasses'])
    try:
        install_extras(['requests'], raise_on_error=True)
    except Exception:     # noqa
        pass


def fresh_main():
    """Entry point of the fresh-interpreter reference: python -m mc.checks.c19 <index>"""
    import json
    setup_process()
    idx = int(sys.argv[1])
    name, v = corpus()[idx]
    outs = []
    for cfg in CFGS:
        r = oracles.run_pformat(v, **cfg)
        outs.append({'text': oracles.normalize_ids(r.text) if r.text is not None else None, 'exc': r.exc, 'warnings': r.warnings})
    print(json.dumps(outs))


def pair_main():
    """python -m mc.checks.c19 pair <i> <j>: print value i, then value j, in a fresh interpreter."""
    import json
    setup_process()
    vals = corpus()
    i, j = int(sys.argv[2]), int(sys.argv[3])
    for cfg in CFGS:
        oracles.run_pformat(vals[i][1], **cfg)
    outs = []
    for cfg in CFGS:
        r = oracles.run_pformat(vals[j][1], **cfg)
        outs.append({'text': oracles.normalize_ids(r.text) if r.text is not None else None, 'exc': r.exc, 'warnings': r.warnings})
    print(json.dumps(outs))


def fresh_pair(item):
    import json
    i, j = item
    env = dict(os.environ, PYTHONHASHSEED='0', PYTHONDONTWRITEBYTECODE='1', PYTHONPATH=core.REPO + os.pathsep + core.VERIF)
    p = subprocess.run([sys.executable, '-m', 'mc.checks.c19', 'pair', str(i), str(j)], cwd=core.VERIF, env=env,
                       stdout=subprocess.PIPE, stderr=subprocess.PIPE, text=True, timeout=120)
    if p.returncode != 0:
        return {'pair': item, 'error': p.stderr[-500:]}
    return {'pair': item, 'outs': json.loads(p.stdout.strip().splitlines()[-1])}


def fresh_reference(idx):
    import json
    env = dict(os.environ, PYTHONHASHSEED='0', PYTHONDONTWRITEBYTECODE='1', PYTHONPATH=core.REPO + os.pathsep + core.VERIF)
    p = subprocess.run([sys.executable, '-m', 'mc.checks.c19', str(idx)], cwd=core.VERIF, env=env,
                       stdout=subprocess.PIPE, stderr=subprocess.PIPE, text=True, timeout=120)
    if p.returncode != 0:
        return {'error': p.stderr[-500:]}
    return {'outs': json.loads(p.stdout.strip().splitlines()[-1])}


def reference_worker(idx):
    return fresh_reference(idx)


# ----------------------------------------------------------------------------- deep snapshot

def snap(v, memo=None):
    """Canonical deep snapshot: type, ordered contents, attribute dict, aliasing structure."""
    if memo is None:
        memo = {}
    if isinstance(v, (int, float, complex, str, bytes, type(None), bool, type, type(...))) or callable(v) and not hasattr(v, '__dict__'):
        return (type(v).__name__, repr(v))
    if id(v) in memo:
        return ('ref', memo[id(v)])
    memo[id(v)] = len(memo)
    t = type(v)
    tn = t.__module__ + '.' + t.__qualname__
    extra = []
    if isinstance(v, collections.deque):
        extra.append(('maxlen', v.maxlen))
    if isinstance(v, collections.defaultdict):
        extra.append(('default_factory', repr(v.default_factory)))
    if isinstance(v, collections.ChainMap):
        return (tn, tuple(snap(m, memo) for m in v.maps))
    if not isinstance(v, dict) and hasattr(v, 'items') and hasattr(v, 'keys') and type(v).__name__ == 'CaseInsensitiveDict':
        return (tn, tuple((snap(k, memo), snap(x, memo)) for k, x in v.items()))
    if isinstance(v, dict) or type(v).__name__ == 'mappingproxy':
        return (tn, tuple((snap(k, memo), snap(x, memo)) for k, x in v.items()), tuple(extra))
    if isinstance(v, (list, tuple, collections.deque)):
        return (tn, tuple(snap(x, memo) for x in v), tuple(extra))
    if isinstance(v, (set, frozenset)):
        return (tn, tuple(sorted((snap(x, memo) for x in v), key=repr)))
    # other objects: their public attributes and repr; names starting with '_' are private caches of
    # derived values (pathlib fills _str, _drv, ... on first use) and not part of the value
    d = getattr(v, '__dict__', None)
    if isinstance(d, dict):
        return (tn, repr(v) if t.__repr__ is not object.__repr__ else '', tuple((k, snap(x, memo)) for k, x in d.items() if not k.startswith('_')))
    slots = [s for c in t.__mro__ for s in getattr(c, '__slots__', ())]
    if slots:
        return (tn, repr(v), tuple((s, snap(getattr(v, s, None), memo)) for s in slots if isinstance(s, str) and not s.startswith('_')))
    return (tn, repr(v))


# ----------------------------------------------------------------------------- exploration

def read_state(R):
    pending = frozenset(R.deferred())
    promoted = frozenset(getattr(k, '__module__', '?') + '.' + getattr(k, '__qualname__', repr(k)) for k in R.registry if k not in R.base_registry)
    names = R.structseq_cache_names()
    cached = frozenset(names) if names is not None else frozenset()
    return (pending, promoted, cached)


def print_checked(vals, i, ref, part, history):
    """Print value i under all configurations (+ the id seam); compare with the fresh reference."""
    R = registry.get()
    name, v = vals[i]
    before = snap(v)
    for ci, cfg in enumerate(CFGS):
        part.n += 1
        case = {'history': [vals[h][0] for h in history], 'print': name, 'config': cfg}
        r = oracles.run_pformat(v, **cfg)
        got = {'text': oracles.normalize_ids(r.text) if r.text is not None else None, 'exc': r.exc, 'warnings': r.warnings}
        want = ref[i][ci]
        if got != want:
            part.violation('differs-from-first-print-in-fresh-interpreter', case, {'got': got, 'fresh': want})
        # id seam: same call with id() perturbed injectively inside the package
        real_id = builtins.id
        R.pp.id = lambda o: -real_id(o) - 1
        try:
            r2 = oracles.run_pformat(v, **cfg)
        finally:
            del R.pp.id
        part.n += 1
        t2 = oracles.normalize_ids(r2.text) if r2.text is not None else None
        if t2 != got['text']:
            part.violation('output-depends-on-object-addresses', case, {'normal': got['text'], 'with_perturbed_id': t2})
    after = snap(v)
    if before != after:
        part.violation('input-mutated', {'history': [vals[h][0] for h in history], 'print': name},
                       {'before': repr(before)[:300], 'after': repr(after)[:300]})


def expand(item):
    """Worker: for each (state, history): restore, replay the history, then print every value once
    (each from its own replay) - checking all of them - and report the successor states."""
    setup_process()
    ref, jobs = item
    part = core.Part()
    R = registry.get()
    vals = corpus()
    succ = []
    for state, history in jobs:
        for i in range(len(vals)):
            R.restore()
            for h in history:
                oracles.run_pformat(vals[h][1])
            if read_state(R) != state:
                part.violation('harness-state-not-reproducible', {'history': [vals[h][0] for h in history]}, None)
            print_checked(vals, i, ref, part, history)
            part.c['transitions'] += 1
            ns = read_state(R)
            if ns != state:
                succ.append((ns, history + (i,)))
                part.nontrivial += 1
    R.restore()
    return {'part': part.pack(), 'succ': succ}


def run(tier, seed):
    setup_process()
    res = core.Result(PROPERTY, LEVEL, tier, seed)
    R = registry.get()
    R.restore()
    vals = corpus()
    # fresh-interpreter references, one subprocess per value
    refs = core.pmap(reference_worker, list(range(len(vals))))
    ref = []
    for i, r in enumerate(refs):
        if 'outs' not in r:
            res.agg.violation('fresh-interpreter-run-failed', {'value': vals[i][0]}, r.get('error') or r)
            ref.append([None] * len(CFGS))
        else:
            ref.append(r['outs'])
            for ci, o in enumerate(r['outs']):
                if o['exc'] or o['warnings']:
                    res.agg.violation('fresh-print-fails', {'value': vals[i][0], 'config': CFGS[ci]}, o)
    init = read_state(R)
    seen = {init: ()}
    frontier = [(init, ())]
    levels = []
    maxdepth = 12 if tier == 'quick' else 20
    depth = 0
    while frontier and depth < maxdepth:
        groups = [frontier[i::core.NPROC] for i in range(core.NPROC)]
        outs = core.pmap(expand, [(ref, g) for g in groups if g])
        nxt = []
        for o in outs:
            if 'part' not in o:
                res.add([o])
                continue
            res.add([o['part']])
            for st, hist in o['succ']:
                if st not in seen:
                    seen[st] = hist
                    nxt.append((st, hist))
        levels.append(len(nxt))
        frontier = nxt
        depth += 1
    # all ordered pairs (print i, then j) from the restored snapshot, in this process
    part = core.Part()
    for i in range(len(vals)):
        for j in range(len(vals)):
            R.restore()
            for cfg in CFGS:
                oracles.run_pformat(vals[i][1], **cfg)
            print_checked(vals, j, ref, part, (i,))
            part.c['ordered_pairs'] += 1
    res.add([part])
    # ordered pairs over the collision subset, each in its own fresh interpreter (hidden module state
    # that the snapshot cannot restore starts cold here)
    names = [n for n, _ in vals]
    sub = [k for k, n in enumerate(names) if n.startswith('collide:') or n in ('purepath', 'longstr', 'enum', 'uuid')]
    if tier == 'quick':
        sub = [k for k in sub if names[k] in ('collide:str', 'collide:posixpath', 'collide:bytes', 'collide:strsub', 'collide:str-dict-key',
                                              'collide:int1', 'collide:true', 'collide:float1', 'collide:zero', 'collide:negzero',
                                              'collide:list', 'collide:tuple', 'collide:intenum', 'collide:empty-str', 'collide:empty-bytes')]
    pairs = [(i, j) for i in sub for j in sub if i != j]
    for o in core.pmap(fresh_pair, pairs):
        res.agg.n += 1
        res.agg.c['fresh_interpreter_pairs'] += 1
        i, j = o['pair']
        if 'outs' not in o:
            res.agg.violation('fresh-interpreter-run-failed', {'history': [names[i]], 'print': names[j]}, o.get('error'))
        elif o['outs'] != ref[j]:
            res.agg.violation('differs-from-first-print-in-fresh-interpreter', {'history': [names[i]], 'print': names[j], 'mode': 'fresh interpreter per pair'},
                              {'got': o['outs'], 'fresh': ref[j]})
    # explicit repetitions x3 and all ordered pairs from the warm end state are transitions of the
    # search already (every value is printed in every state); repetition within one state:
    part = core.Part()
    R.restore()
    for i in range(len(vals)):
        for _ in range(3):
            print_checked(vals, i, ref, part, ())
    res.add([part])
    R.restore()
    a = res.agg
    res.coverage = {
        'states': len(seen), 'transitions': a.c['transitions'], 'traces_validated_against_impl': a.c['transitions'],
        'exhaustive': not frontier,
        'rule': 'BFS from the cold registry snapshot over print(v) for %d corpus values; a state is (pending by-name '
                'registrations, promoted classes, cached struct-sequence classes) read back from the real globals; in every '
                'state every value is printed under %d configurations, each also with a perturbed id(), and compared with '
                'its first print in a fresh interpreter; non-trivial = transitions that change the state'
                % (len(vals), len(CFGS)),
        'ordered_pairs_in_process': a.c['ordered_pairs'], 'ordered_pairs_each_in_a_fresh_interpreter': a.c['fresh_interpreter_pairs'],
        'new_states_per_level': levels, 'depth_bound': maxdepth, 'frontier_left_at_bound': len(frontier),
        'corpus': [n for n, _ in vals],
        'samples': [{'history': [vals[h][0] for h in hist]} for hist in list(seen.values())[-3:]],
    }
    res.assumptions = ['lazily prepared layout constants cannot be reset inside one interpreter; the cold case is the '
                       'fresh-interpreter reference', 'PYTHONHASHSEED=0 in both interpreters']
    return res


def replay(case):
    setup_process()
    R = registry.get()
    vals = corpus()
    names = [n for n, _ in vals]
    ref = []
    for i in range(len(vals)):
        ref.append(None)
    i = names.index(case['print'])
    ref[i] = fresh_reference(i).get('outs')
    part = core.Part()
    R.restore()
    hist = tuple(names.index(h) for h in case.get('history', []))
    for h in hist:
        oracles.run_pformat(vals[h][1])
    print_checked(vals, i, ref, part, hist)
    R.restore()
    lines = ['history: %s then print %s' % (case.get('history'), case['print'])]
    for v in part.violations:
        lines.append('violation kind=%s config=%s detail=%s' % (v['kind'], v['case'].get('config'), str(v['detail'])[:800]))
    return not part.violations, '\n'.join(lines)


if __name__ == '__main__':
    if len(sys.argv) > 1 and sys.argv[1] == 'pair':
        pair_main()
    else:
        fresh_main()
