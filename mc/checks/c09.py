"""C09 - comments are inert and preserved.

Exhaustive over value shapes (<= 3 levels over int, str, list, 1-tuple, 2-tuple, set, dict,
frozenset, SimpleNamespace, a call-style user type, empty containers) x every assignment of
{none, comment, trailing_comment, both} to the nodes (trailing only where the printers accept it)
with the text 'c<i>', x every adversarial text on each single node, x all text pairs on two-comment
placements, x widths.
Oracle: no exception, no fallback warning; the AST of the output equals the AST of the uncommented
print (a 1-tuple stays a tuple); every word of every attached comment appears, in order, inside
COMMENT tokens.
"""
import itertools
import tokenize
import types

from .. import core, oracles, fixtures
from ..fixtures import Call

PROPERTY = 'C09'
LEVEL = 'exploration'

TEXTS = ['c', 'two words', 'x\ny', 'x\n\ny', '\n', '  lead', '#', "it's", '"q"', ')]}', 'a,b', 'w' * 100,
         '\xe9', 'trail  ', 'a\n', '\nb', ' ', 'tab\there', 'w ' * 40, '\\', "'''", 'x = [1,\n2]',
         # every character str.splitlines() treats as a line boundary, between two words and at the ends
         'alpha\rbeta', 'alpha\r\nbeta', 'alpha\x0bbeta', 'alpha\x0cbeta', 'alpha\x1cbeta', 'alpha\x1dbeta', 'alpha\x1ebeta',
         'alpha\x85beta', 'alpha\u2028beta', 'alpha\u2029beta', '\rlead', 'trail\r', 'a \r b']
TRAILING_OK = (list, tuple, set, dict)
SETTINGS = [{'sort_dict_keys': True}, {'max_seq_len': 2}, {'max_seq_len': 1, 'sort_dict_keys': True}, {'depth': 2}, {'depth': 3, 'indent': 2}]


def specs():
    """(name, builder) - builder(w) builds the value calling w(node_id, raw_value) on every node."""
    yield 'int', lambda w: w(0, 1)
    yield 'str', lambda w: w(0, 's')
    yield 'longstr', lambda w: w(0, 'word ' * 8)
    yield 'list1', lambda w: w(0, [w(1, 1)])
    yield 'list2', lambda w: w(0, [w(1, 1), w(2, 's')])
    yield 'tuple1', lambda w: w(0, (w(1, 1),))
    yield 'tuple2', lambda w: w(0, (w(1, 1), w(2, 2)))
    yield 'set1', lambda w: w(0, {w(1, 1)})
    yield 'dict1', lambda w: w(0, {w(1, 'k'): w(2, 1)})
    yield 'dict2', lambda w: w(0, {w(1, 'k'): w(2, 1), w(3, 2): w(4, [w(5, 3)])})
    yield 'dict3', lambda w: w(0, {'a': w(1, 1), 'b': w(2, (w(3, 2),)), 'c': w(4, 'x')})
    yield 'frozenset1', lambda w: w(0, frozenset([w(1, 1)]))
    yield 'ns', lambda w: w(0, types.SimpleNamespace(a=w(1, 1), b=w(2, [w(3, 2)])))
    yield 'call', lambda w: w(0, Call(w(1, 1), w(2, [w(3, 2)]), kw=w(4, 'v')))
    yield 'callhug', lambda w: w(0, Call(w(1, [w(2, 1)])))
    yield 'nested', lambda w: w(0, [w(1, [w(2, (w(3, 1),))])])
    yield 'tuple-in-dict', lambda w: w(0, {'k': w(1, (w(2, 'only'),))})
    yield 'dict-unsorted', lambda w: w(0, {'z': w(1, {'b': 1, 'a': w(2, 2)}), 'y': w(3, [w(4, {'d': 1, 'c': 2})])})
    yield 'long-containers', lambda w: w(0, {'k': w(1, [1, 2, 3, 4, 5]), 'j': w(2, (1, 2, 3)), 'i': w(3, {1: 1, 2: 2, 3: 3})})
    yield 'deep', lambda w: w(0, {'k': w(1, [w(2, [w(3, [w(4, 1)])])])})
    yield 'long-list', lambda w: w(0, [w(1, 0)] + list(range(1, 58)) + [w(2, 58), w(3, [w(4, 59)])])
    yield 'long-tuple-in-dict', lambda w: w(0, {'k': w(1, tuple([w(2, 'first')] + list(range(55)) + [w(3, 'last')]))})
    yield 'emptylist', lambda w: w(0, [])
    yield 'emptytuple', lambda w: w(0, ())
    yield 'emptydict', lambda w: w(0, {})
    yield 'emptyset', lambda w: w(0, set())
    yield 'emptyinlist', lambda w: w(0, [w(1, []), w(2, ())])
    yield 'sublist', lambda w: w(0, fixtures.SUBCLASSES[list][0]([w(1, 1)]))
    yield 'emptysublist', lambda w: w(0, fixtures.SUBCLASSES[list][0]())


def node_types(builder):
    ids = []
    builder(lambda i, v: (ids.append((i, type(v))), v)[1])
    return ids


def hashable_position(name, i):
    """Nodes that sit where a hashable value is required cannot be wrapped (the wrapper objects are
    hashable by identity, which would change the container) - comments on set elements and dict keys
    are still legal, the package unwraps them; keep them."""
    return False


def placements(ids, full):
    """Assignments node -> tuple of kinds ('c', 't')."""
    opts = []
    for i, t in ids:
        o = [(), ('c',)]
        if issubclass(t, TRAILING_OK):
            o += [('t',), ('c', 't')]
        opts.append(o)
    if full:
        for combo in itertools.product(*opts):
            pl = {i: k for (i, _), k in zip(ids, combo) if k}
            if pl:
                yield pl
    else:
        for (i, t), o in zip(ids, opts):
            for k in o[1:]:
                yield {i: k}
        for (i, t), (j, u) in itertools.combinations(ids, 2):
            yield {i: ('c',), j: ('c',)}


def words_in_order(words, got):
    it = iter(got)
    return all(any(x == g for g in it) for x in words)


def check_case(name, builder, pl, texts, width, part, basedump, settings=None):
    from prettyprinter import comment, trailing_comment
    attached = []

    def w(i, v):
        if i in pl:
            for kind in pl[i]:
                text = texts[(i, kind)]
                if kind == 'c':
                    v = comment(v, text)
                else:
                    v = trailing_comment(v, text)
                attached.append(text)
        return v
    value = builder(w)
    part.n += 1
    case = {'shape': name, 'placement': {str(i): list(k) for i, k in pl.items()},
            'texts': {'%d%s' % (i, k): t for (i, k), t in texts.items() if i in pl and k in pl[i]}, 'width': width}
    if settings:
        case['settings'] = settings
    try:
        with core.deadline(10):
            r = oracles.run_pformat(value, width=width, **(settings or {}))
    except core.Timeout:
        part.violation('timeout', case, None)
        return
    if r.exc is not None:
        part.violation('exception', case, r.exc)
        return
    if any('raised an exception' in m or 'does not support' in m for m in r.warnings):
        part.violation('fallback-warning', case, {'output': r.text, 'warning': r.warnings[0][:200]})
        return
    try:
        d = oracles.dump(r.text)
    except (SyntaxError, ValueError) as e:
        part.violation('not-parsable', case, {'output': r.text, 'why': str(e)})
        return
    if d != basedump:
        part.violation('syntax-tree-changed', case, {'output': r.text})
        return
    try:
        got = ' '.join(c[1:] for c in oracles.comment_tokens(r.text)).split()
    except tokenize.TokenError as e:
        part.violation('not-tokenizable', case, {'output': r.text, 'why': str(e)})
        return
    if settings and ('max_seq_len' in settings or 'depth' in settings):
        part.nontrivial += 1        # a commented element may be cut away with its container: only the tree is compared
        return
    for text in attached:
        if not text:
            continue
        if not words_in_order(text.split(), got):
            part.violation('comment-words-missing', case, {'output': r.text, 'text': text})
            return
    if attached:
        part.nontrivial += 1


def check_spec(name, builder, part, full, widths):
    ids = node_types(builder)
    raw = builder(lambda i, v: v)
    base = oracles.run_pformat(raw)
    if not base.ok():
        part.violation('uncommented-print-fails', {'shape': name}, base.exc or base.warnings[:1])
        return
    basedump = oracles.dump(base.text)
    for pl in placements(ids, full):
        slots = [(i, k) for i, ks in pl.items() for k in ks]
        default = {(i, k): ('c%d' % i if k == 'c' else 't%d' % i) for (i, k) in slots}
        variants = [default]
        if len(slots) == 1:
            variants += [{slots[0]: t} for t in TEXTS]
        elif len(slots) == 2:
            for a, b in itertools.product(TEXTS[:9], repeat=2):
                variants.append({slots[0]: a, slots[1]: b})
        for texts in variants:
            for width in widths:
                check_case(name, builder, pl, texts, width, part, basedump)
    # the same under other settings: comments must stay inert whatever the settings are (the uncommented
    # print under the same settings is the reference)
    for settings in SETTINGS:
        sbase = oracles.run_pformat(raw, **settings)
        if not sbase.ok():
            continue
        sdump = oracles.dump(sbase.text)
        for pl in placements(ids, full):
            slots = [(i, k) for i, ks in pl.items() for k in ks]
            texts = {(i, k): ('c%d' % i if k == 'c' else 't%d' % i) for (i, k) in slots}
            for width in [w for w in widths if w in (1, 12, 30, 79)]:
                check_case(name, builder, pl, texts, width, part, sdump, settings=settings)
    part.c['shapes'] += 1
    if len(part.samples) < 1:
        part.sample({'shape': name, 'nodes': len(ids)})


def work(item):
    fixtures.register()
    name, full, widths = item
    part = core.Part()
    builder = dict(specs())[name]
    check_spec(name, builder, part, full, widths)
    return part


def run(tier, seed):
    fixtures.register()
    res = core.Result(PROPERTY, LEVEL, tier, seed)
    widths = tuple(range(1, 42)) + (79,) if tier == 'quick' else tuple(range(1, 61)) + (79, 120, 200)
    items = [(name, True, (w,)) for name, _ in specs() for w in widths]
    res.add(core.pmap(work, items))
    res.coverage = {
        'exhaustive': True,
        'rule': 'every shape x every assignment of {none, comment, trailing_comment, both} to its nodes x texts '
                '(all %d texts on single-comment placements, all pairs of the first 9 on two-comment placements) x '
                'widths %s; non-trivial = cases with at least one attached comment that satisfied the oracle'
                % (len(TEXTS), '1..41, 79' if len(widths) < 50 else '1..60, 79, 120, 200'),
        'shapes': [n for n, _ in specs()], 'texts': TEXTS,
    }
    res.assumptions = ['trailing comments are attached only to list/tuple/set/dict values and their subclasses '
                       '(for other types the package documents that the comment will not show up)']
    return res


def replay(case):
    fixtures.register()
    builder = dict(specs())[case['shape']]
    pl = {int(i): tuple(k) for i, k in case['placement'].items()}
    texts = {}
    for key, t in case['texts'].items():
        texts[(int(key[:-1]), key[-1])] = t
    part = core.Part()
    raw = builder(lambda i, v: v)
    basedump = oracles.dump(oracles.run_pformat(raw).text)
    st = case.get('settings')
    if st:
        basedump = oracles.dump(oracles.run_pformat(raw, **st).text)
    check_case(case['shape'], builder, pl, texts, case['width'], part, basedump, settings=st)
    lines = ['case: %s' % case]
    for v in part.violations:
        lines.append('violation kind=%s detail=%s' % (v['kind'], v['detail']))
    return not part.violations, '\n'.join(lines)
