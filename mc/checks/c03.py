"""C03 - width, ribbon and indent change only the layout, never the content.

Corpus: union of the other generators at their small bounds (built-in trees, standard-library
instances, subclass instances, commented trees, call-style user types, dataclass / attrs
instances).  Every value x every (width, ribbon <= width, indent) with width in [1, L+3] + {79,
200}.  Oracle: ast.dump of the parenthesised output equals the dump at the reference configuration
(10**6 / 10**6 / 4) - equality with one reference is equality of all pairs - and every line's
leading-space count is a multiple of the indent setting.
"""
import itertools

from .. import core, oracles, corpus, values, fixtures

CAP = [48]
PROPERTY = 'C03'
LEVEL = 'exploration'


def leading_ok(text, indent):
    for line in text.split('\n'):
        n = len(line) - len(line.lstrip(' '))
        if line.strip() and n % indent:
            return False, line
    return True, None


def check_value(label, v, part, indents, rmode):
    ref = oracles.run_pformat(v, width=10 ** 6, ribbon_width=10 ** 6, indent=4)
    desc = {'kind': label, 'value': (oracles.expr_of(v) if label == 'tree' else repr(v))[:160]}
    part.n += 1
    if ref.exc is not None or any('raised an exception' in m for m in ref.warnings):
        part.violation('reference-print-fails', desc, ref.exc or ref.warnings[0][-200:])
        return
    try:
        want = oracles.dump(ref.text)
    except (SyntaxError, ValueError) as e:
        part.violation('reference-not-parsable', desc, {'output': ref.text[:300], 'why': str(e)})
        return
    L = max(len(x) for x in ref.text.split('\n'))
    cache = {}
    nlayouts = set()
    for (w, r) in values.width_lattice(L, rmode, cap=CAP[0]):
        for ind in indents:
            part.n += 1
            cfg = {'width': w, 'ribbon_width': r, 'indent': ind}
            case = dict(desc, config=cfg)
            res = oracles.run_pformat(v, **cfg)
            if res.exc is not None:
                part.violation('exception', case, res.exc)
                continue
            if any('raised an exception' in m for m in res.warnings):
                part.violation('fallback-warning', case, res.warnings[0][-200:])
                continue
            text = res.text
            verdict = cache.get(text)
            if verdict is None:
                try:
                    verdict = oracles.dump(text) == want
                except (SyntaxError, ValueError) as e:
                    verdict = 'unparsable: %s' % e
                cache[text] = verdict
            if verdict is not True:
                part.violation('syntax-tree-differs-between-configurations', case, {'output': text[:400], 'reference': ref.text[:300], 'why': verdict})
                continue
            ok, line = leading_ok(text, ind)
            if not ok:
                part.violation('indentation-not-a-multiple-of-indent', case, {'output': text[:400], 'line': line})
            nlayouts.add(text if ind == indents[0] else None)
    if len(nlayouts) > 2:
        part.nontrivial += 1
    part.c['values'] += 1


def work(item):
    fixtures.register()
    tree_nodes, lo, hi, indents, rmode, cap = item
    CAP[0] = cap
    part = core.Part()
    for i, (label, v) in enumerate(corpus.materialised(tree_nodes)[lo:hi]):
        check_value(label, v, part, indents, rmode)
        if i == 0:
            part.sample({'kind': label, 'value': repr(v)[:100]})
    return part


def run(tier, seed):
    fixtures.register()
    res = core.Result(PROPERTY, LEVEL, tier, seed)
    tree_nodes = 2 if tier == 'quick' else 3
    indents = (4, 1, 8) if tier == 'quick' else (4, 1, 2, 3, 5, 6, 7, 8)
    total = len(corpus.materialised(tree_nodes))
    items = [(tree_nodes, lo, hi, indents, 'some', 36 if tier == 'quick' else 60) for lo, hi in core.chunks(total, 192)]
    res.add(core.pmap(work, items))
    kinds = {}
    for label, _ in corpus.materialised(tree_nodes):
        k = label.split(':')[0]
        kinds[k] = kinds.get(k, 0) + 1
    res.coverage = {
        'exhaustive': True,
        'rule': 'every corpus value (%d) x every width 1..min(L,cap)+3 (cap 36 quick / 60 thorough) (+79, 200) x ribbons {1, w/2, w} x indents %s, AST '
                'compared with the reference configuration; non-trivial = values with more than two distinct layouts'
                % (total, list(indents)),
        'corpus': kinds,
    }
    res.assumptions = ['CPython ast as the definition of "same syntax tree"']
    return res


def replay(case):
    fixtures.register()
    part = core.Part()
    for label, v in corpus.everything(3):
        d = (oracles.expr_of(v) if label == 'tree' else repr(v))[:160]
        if label == case['kind'] and d == case['value']:
            cfg = case.get('config', {})
            check_value(label, v, part, (cfg.get('indent', 4),), 'some')
            break
    mine = [x for x in part.violations if x['case'].get('config') == case.get('config')]
    lines = ['case: %s' % case]
    for x in mine:
        lines.append('violation kind=%s detail=%s' % (x['kind'], x['detail']))
    return not mine, '\n'.join(lines)
