"""Shared by C05 and C06: recover the flat/broken decision of every group from the observed
output through the reference semantics, over the classic algebra."""
import itertools

from .. import core, docalg

_ALPHA = {}


def alphabet():
    if 'c' not in _ALPHA:
        _ALPHA['c'] = docalg.classic_alphabet()
    return _ALPHA['c']


def strategies():
    from prettyprinter.layout import layout_smart, layout_fast
    return (('smart', layout_smart), ('fast', layout_fast))


def has_forced(t):
    """Does the subtree contain a HARDLINE or always_break node?"""
    k = t[0]
    if k in ('hardline', 'ab'):
        return True
    if k in ('t', 'nil', 'line', 'softline'):
        return False
    if k in ('cat', 'fill'):
        return any(has_forced(c) for c in t[1])
    if k in ('nest', 'hang', 'ann'):
        return has_forced(t[2])
    if k == 'fc':
        return has_forced(t[1]) or has_forced(t[2])
    return has_forced(t[1])


def line_end(tokens, start_tok, start_col):
    """End column of the output line that contains position start_tok (column start_col there)."""
    col = start_col
    for t in tokens[start_tok:]:
        if isinstance(t, str):
            col += len(t)
        elif isinstance(t, int):
            break
    return col


def line_start_col(tokens, tok):
    """Column at token index tok."""
    col = 0
    for t in tokens[:tok]:
        if isinstance(t, str):
            col += len(t)
        elif isinstance(t, int):
            col = t
    return col


def decisions(rs):
    """rs: the renderings consistent with the observed output.  -> dict path -> 'flat' | 'broken' |
    'ambiguous' for every group (classic algebra: every group is visited in every rendering)."""
    out = {}
    for r in rs:
        for g in r.groups:
            if g.kind != 'group':
                continue
            v = 'flat' if g.flat else 'broken'
            if g.path not in out:
                out[g.path] = v
            elif out[g.path] != v:
                out[g.path] = 'ambiguous'
    return out


def flat_fits(r, g, tokens, width, rw):
    """C05 claim for a flat group g of rendering r."""
    e = line_end(tokens, g.start_tok, g.start_col)
    return e <= width and e <= g.indent + rw, e


def justify_break(term, r, g, width, rw, smart):
    """C06 claim: is breaking g (broken in r) justified?  Computed on the reference term: the same
    prefix of decisions, g and every later group flat.  -> reason string or None."""
    k = r.groups.index(g)
    # index of g's choice in r.choices: groups are the only choice points in the classic algebra
    h = docalg.Rendering(tuple(r.choices[:k]))
    h.go(term, docalg.BREAK, 0)
    assert h.groups[k].path == g.path and h.groups[k].start_tok == g.start_tok
    toks = h.out
    marks = {tok for (tok, opened) in h.ab_marks if opened > k}   # always_break nodes that start after g
    col = g.start_col
    minnest = min(g.start_col, g.indent)
    limit = min(width, g.indent + rw)
    first = True
    i = g.start_tok
    if col > limit:
        return 'a:column-already-past-limit'
    while True:
        if i in marks:
            return 'c:forced-break-on-line'
        if i >= len(toks):
            return None
        t = toks[i]
        if isinstance(t, str):
            col += len(t)
            if col > limit:
                return 'a:overflow' if first else 'b:next-line-overflow'
        elif isinstance(t, int):
            if not smart:
                return None
            if t > minnest:
                first = False
                col = t
                limit = width
                if col > limit:
                    return 'b:indentation-past-width'
            else:
                return None
        i += 1


def scaled_documents():
    """Deterministic large documents (they replace the quantifier's "random larger ones"): one group
    around n words, so that the look-ahead of the fitting predicate has to run over hundreds of
    documents and the page is wider than 1000 columns.  -> [(term, [(width, frac, ribbon)])]"""
    out = []
    for n in (50, 340, 700):
        words = []
        for i in range(n):
            words.append(['t', 'abc'])
            if i < n - 1:
                words.append(['line'])
        flat = 4 * n - 1
        body = ['cat', words]
        for term, extra in ((['group', body], 0), (['nest', 2, ['group', body]], 0),
                            (['cat', [['group', body], ['t', 'cccc']]], 4),
                            (['cat', [['t', 'bb'], ['nest', 2, ['cat', [['line'], ['group', body]]]]]], 0)):
            cfgs = []
            for w in sorted({flat + extra - 1, flat + extra, flat + extra + 1, flat // 2, 79, 1500, 2000, 2500, flat + 50}):
                if w < 1:
                    continue
                for frac in (1.0, 0.9, 0.5):
                    cfgs.append((w, frac, docalg.ribbon_width(w, frac)))
            out.append((term, cfgs))
    return out


def many_groups_configs():
    return [(n, w, f) for n in (3, 400, 700) for (w, f) in ((11, 1.0), (8, 1.0), (7, 1.0), (6, 1.0), (40, 0.2), (40, 0.175), (79, 0.1))]


def check_many_groups(part, prop):
    """A long top-level sequence of n small independent groups  group('aaa' LINE 'bbb') ',' LINE ...  : more
    than a thousand documents are pending while the early groups are decided.  The layout set has 2**n
    members, so the reference here is the closed form of this family: group i is flat iff its one-line
    form plus the comma after it ends within min(width, ribbon) - required (C05) and sufficient (C06)."""
    from prettyprinter import doc as Dc
    for n, width, frac in many_groups_configs():
        rw = docalg.ribbon_width(width, frac)
        limit = min(width, rw)
        parts = []
        for i in range(n):
            parts.append(Dc.group(Dc.concat(['aaa', Dc.LINE, 'bbb'])))
            if i < n - 1:
                parts += [',', Dc.LINE]
        d = Dc.concat(parts)
        for sname, layout in strategies():
            part.n += 1
            case = {'family': 'many-groups', 'n': n, 'width': width, 'frac': frac, 'strategy': sname}
            try:
                text = docalg.tokens_text(docalg.observe(layout(d, width=width, ribbon_frac=frac)))
            except Exception as e:     # noqa
                part.violation('layout-exception', case, '%s: %s' % (type(e).__name__, e))
                continue
            lines = text.split('\n')
            part.c['tokens'] += len(lines)
            bad = None
            i = li = 0
            while i < n and li < len(lines):
                tail = ',' if i < n - 1 else ''
                fits = 7 + len(tail) <= limit
                if lines[li] == 'aaa bbb' + tail:
                    if not fits and prop == 'C05':
                        bad = ('flat-group-overflows', i, lines[li])
                        break
                    li += 1
                elif lines[li] == 'aaa' and li + 1 < len(lines) and lines[li + 1] == 'bbb' + tail:
                    if fits and prop == 'C06':
                        bad = ('broke-although-it-fits', i, lines[li] + ' / ' + lines[li + 1])
                        break
                    li += 2
                else:
                    bad = ('not-a-member', i, lines[li])
                    break
                i += 1
            if bad is None and (i != n or li != len(lines)):
                bad = ('not-a-member', i, 'groups consumed %d of %d, lines %d of %d' % (i, n, li, len(lines)))
            if bad:
                part.violation(bad[0], case, {'group_index': bad[1], 'line': bad[2], 'limit': limit})
            else:
                part.nontrivial += 1
    part.c['many_groups_documents'] += len(many_groups_configs())
