"""C17 - call-style printers show exactly the constructor call.

Part A: a user type printed through pretty_call and through pretty_call_alt with every args list
(length 0..2 over 8 values, length 3 over 4) x every kwargs list (length 0..1 over 8 values,
length 2 over 4) x four kinds of callables x widths.  Oracle on the AST: Call.func is the dotted
qualified name (bare for builtins), positional arguments in order, keyword names in the order
given, every argument subtree equals the AST of that argument's stand-alone print.
Part B: generated dataclass and attrs class definitions (0..3 fields x {no default, default,
default factory} x repr on/off x {plain, frozen, slots} x field names incl. fn, ctx, args,
kwargs) x every instance whose fields are each {the default, another value} x widths.  Oracle:
keywords == fields with repr enabled and (no default or value != default), in declaration order;
evaluation reconstructs an equal instance whenever the hidden fields hold their defaults; no
fallback warning.
"""
import ast
import dataclasses
import itertools
import sys

import attr

from .. import core, oracles, fixtures
from ..fixtures import Call

PROPERTY = 'C17'
LEVEL = 'exploration'

FX = sys.modules[fixtures.__name__]


class Spec:
    """Printed as a call of self.fn with self.args / self.kwargs (list of pairs)."""

    def __init__(self, fn, args, kwargs, alt):
        # alt: False = pretty_call(**kwargs); True / 'list' = pretty_call_alt with a list of pairs;
        # 'dict', 'odict', 'zip', 'gen' = the other documented forms of the kwargs argument
        self.fn, self.args, self.kwargs, self.alt = fn, tuple(args), list(kwargs), alt


def module_fn(*a, **k):
    return ('module_fn', a, tuple(k.items()))


class Outer:
    class Nested:
        def __init__(self, *a, **k):
            self.a, self.k = a, k


class Klass:
    def __init__(self, *a, **k):
        self.a, self.k = a, k


class Marker:
    """Its printer prints its argument under a user-context entry (ctx.assoc), as extras/django does."""

    def __init__(self, x):
        self.x = x

    def __repr__(self):
        return 'Marker(%r)' % (self.x,)


class Reader:
    """Its printer reads that user-context entry (ctx.get) and abbreviates itself under it."""

    def __init__(self, x):
        self.x = x

    def __repr__(self):
        return 'Reader(%r)' % (self.x,)


_reg = []


def ensure_registered():
    if _reg:
        return
    from prettyprinter import register_pretty, pretty_call, pretty_call_alt, install_extras

    @register_pretty(Spec)
    def pretty_spec(v, ctx):
        if v.alt:
            import collections
            kw = v.kwargs
            if v.alt == 'dict':
                kw = dict(kw)
            elif v.alt == 'odict':
                kw = collections.OrderedDict(kw)
            elif v.alt == 'zip':
                kw = zip([k for k, _ in v.kwargs], [x for _, x in v.kwargs])
            elif v.alt == 'gen':
                kw = ((k, x) for k, x in v.kwargs)
            elif v.alt == 'tuple':
                kw = tuple(kw)
            return pretty_call_alt(ctx, v.fn, args=v.args, kwargs=kw)
        return pretty_call(ctx, v.fn, *v.args, **dict(v.kwargs))

    @register_pretty(Marker)
    def pretty_marker(v, ctx):
        return pretty_call(ctx.assoc('c17_short', True), Marker, v.x)

    @register_pretty(Reader)
    def pretty_reader(v, ctx):
        if ctx.get('c17_short'):
            return pretty_call(ctx, Reader)
        return pretty_call(ctx, Reader, v.x)
    install_extras(['dataclasses', 'attrs'])
    fixtures.register()
    _reg.append(1)


def arg_values():
    from prettyprinter import comment
    # None and Ellipsis print as shared module-level documents: repeated occurrences are the same object
    return [1, 'x', [1], (1,), {'a': 1}, [], comment(2, 'c'), Call(3, k=[4]), None, ...,
            Marker(Reader(6)), Reader(7)]


CALLABLES = [('module function', module_fn, 'mc.checks.c17.module_fn'), ('class', Klass, 'mc.checks.c17.Klass'),
             ('nested class', Outer.Nested, 'mc.checks.c17.Outer.Nested'), ('builtin', sorted, 'sorted'),
             ('builtin type', dict, 'dict')]


def dotted(node):
    if isinstance(node, ast.Name):
        return node.id
    if isinstance(node, ast.Attribute):
        return dotted(node.value) + '.' + node.attr
    return '?'


def arg_dump(v, width):
    r = oracles.run_pformat(v, width=width)
    return ast.dump(oracles.parse_expr(r.text).body)


def check_call(fn, fname, args, kwargs, alt, width, part, dump_cache):
    part.n += 1
    spec = Spec(fn, args, kwargs, alt)
    case = {'callable': fname, 'args': [repr(a)[:40] for a in args], 'kwargs': [(k, repr(v)[:40]) for k, v in kwargs],
            'api': ('pretty_call_alt/%s' % (alt if alt is not True else 'list')) if alt else 'pretty_call', 'width': width}
    r = oracles.run_pformat(spec, width=width)
    if r.exc is not None:
        part.violation('exception', case, r.exc)
        return
    if any('raised an exception' in m for m in r.warnings):
        part.violation('fallback-warning', case, r.warnings[0][-300:])
        return
    try:
        node = oracles.parse_expr(r.text).body
    except SyntaxError as e:
        part.violation('not-parsable', case, {'output': r.text, 'why': str(e)})
        return
    if not isinstance(node, ast.Call):
        part.violation('not-a-call', case, {'output': r.text})
        return
    if dotted(node.func) != fname:
        part.violation('wrong-callable-name', case, {'output': r.text, 'expected': fname})
        return
    if len(node.args) != len(args) or [k.arg for k in node.keywords] != [k for k, _ in kwargs]:
        part.violation('wrong-arguments', case, {'output': r.text})
        return
    for sub, v in list(zip(node.args, args)) + [(kw.value, v) for kw, (_, v) in zip(node.keywords, kwargs)]:
        key = id(v)
        if key not in dump_cache:
            dump_cache[key] = arg_dump(v, 10 ** 6)
        if ast.dump(sub) != dump_cache[key]:
            part.violation('argument-differs-from-standalone-print', case, {'output': r.text, 'argument': repr(v)[:80]})
            return
    if '\n' in r.text:
        part.nontrivial += 1


def call_cases():
    vals = arg_values()
    small = vals[:3] + [vals[6], vals[8], vals[9]]
    arglists = [()] + [(a,) for a in vals] + list(itertools.product(vals, repeat=2)) + list(itertools.product(small, repeat=3))
    kwlists = [[]] + [[('a', v)] for v in vals] + [[('b', v), ('a', u)] for v in small for u in small] + [[('zz', 1), ('a', 2), ('m', 3)]]
    for args in arglists:
        for kw in kwlists:
            yield args, kw


# ----------------------------------------------------------------------------- part B

NAMES = ['a', 'fn', 'ctx', 'args', 'kwargs', 'value', 'b']
KINDS = ['none', 'default', 'factory']
ATTRS_EXTRA_KINDS = ['selfdep']       # attrs only: Factory(takes_self=True), the default is derived from the instance
DEFAULTS = {'default': (5, 'x'), 'factory': [5]}


def fresh_default(kind):
    """An equal but not identical object (so that `is` instead of `==` is visible)."""
    return tuple([5, 'x']) if kind == 'default' else [5]


def field_defs(maxf):
    for k in range(0, maxf + 1):
        for kinds in itertools.product(KINDS, repeat=k):
            seen, ok = False, True
            for kd in kinds:
                if kd != 'none':
                    seen = True
                elif seen:
                    ok = False
            if not ok:
                continue
            for reprs in itertools.product((True, False), repeat=k):
                namesets = [NAMES[:k]] if k == 0 else [NAMES[i:i + k] for i in range(0, len(NAMES) - k + 1)]
                for names in namesets:
                    yield list(zip(names, kinds, reprs))


def mk_dataclass(fields, variant, idx):
    ns, ann = {}, {}
    for name, kind, rp in fields:
        ann[name] = int
        if kind == 'none':
            ns[name] = dataclasses.field(repr=rp)
        elif kind == 'default':
            ns[name] = dataclasses.field(default=DEFAULTS['default'], repr=rp)
        else:
            ns[name] = dataclasses.field(default_factory=lambda: [5], repr=rp)
    # pseudo-fields, which are not constructor arguments of the printed call: a class variable whose
    # value has changed since the class was created, one declared without a value and assigned later,
    # and an init-only variable with a default
    import typing
    ann['instances'] = typing.ClassVar[int]
    ns['instances'] = 0
    ann['registry'] = typing.ClassVar[dict]
    ann['seed'] = dataclasses.InitVar[int]
    ns['seed'] = 0
    ns['__annotations__'] = ann
    ns['__module__'] = fixtures.__name__
    cls = type('DC%d' % idx, (), ns)
    kw = {'frozen': True} if variant == 'frozen' else {'slots': True} if variant == 'slots' else {}
    cls = dataclasses.dataclass(**kw)(cls)
    cls.instances = 3
    cls.registry = {'x': None}
    cls.__qualname__ = cls.__name__
    setattr(FX, cls.__name__, cls)
    return cls


def derived_default(self_or_kwargs, fields):
    first = fields[0][0]
    v = self_or_kwargs[first] if isinstance(self_or_kwargs, dict) else getattr(self_or_kwargs, first)
    return ['derived', v]


def mk_attrs(fields, variant, idx):
    ns = {}
    for name, kind, rp in fields:
        if kind == 'selfdep':
            ns[name] = attr.ib(default=attr.Factory(lambda self, fields=fields: derived_default(self, fields), takes_self=True), repr=rp)
            continue
        if kind == 'none':
            ns[name] = attr.ib(repr=rp)
        elif kind == 'default':
            ns[name] = attr.ib(default=DEFAULTS['default'], repr=rp)
        else:
            ns[name] = attr.ib(factory=lambda: [5], repr=rp)
    kw = {'frozen': True, 'slots': False} if variant == 'frozen' else {'slots': True} if variant == 'slots' else {'slots': False}
    cls = attr.make_class('AT%d' % idx, ns, **kw)
    cls.__module__ = fixtures.__name__
    cls.__qualname__ = cls.__name__
    setattr(FX, cls.__name__, cls)
    return cls


def class_cases():
    idx = 0
    for lib, mk in (('dataclasses', mk_dataclass), ('attrs', mk_attrs)):
        for fields in field_defs(3):
            for variant in ('plain', 'frozen', 'slots'):
                idx += 1
                yield lib, mk, fields, variant, idx
    # attrs classes whose last field's default is computed from the first field of the instance
    for fields in field_defs(2):
        if not fields:
            continue
        for rp in (True, False):
            for variant in ('plain', 'slots'):
                idx += 1
                yield 'attrs', mk_attrs, fields + [('dep', 'selfdep', rp)], variant, idx


def check_class(lib, mk, fields, variant, idx, part, widths):
    ns = fixtures.namespace()
    try:
        cls = mk(fields, variant, idx)
    except Exception as e:     # noqa
        part.c['class_definitions_rejected_by_%s' % lib] += 1
        return
    for choice in itertools.product((0, 1, 2), repeat=len(fields)):
        kwargs = {}
        skip = False
        for (name, kind, rp), c in zip(fields, choice):
            if c == 2 and kind != 'none':
                skip = True         # a third value only for fields without default (so that derived defaults differ)
            if kind == 'selfdep':
                if c == 0:
                    continue        # leave it to the factory
                kwargs[name] = [8]
            else:
                kwargs[name] = ((fresh_default(kind) if kind != 'none' else 7) if c == 0 else [8]) if c < 2 else 9
        if skip:
            continue
        inst = cls(**kwargs)

        def default_of(name, kind):
            return derived_default(kwargs, fields) if kind == 'selfdep' else DEFAULTS[kind]
        value = {name: (kwargs[name] if name in kwargs else default_of(name, kind)) for (name, kind, rp) in fields}
        exp = [name for (name, kind, rp) in fields if rp and (kind == 'none' or value[name] != default_of(name, kind))]
        hidden_ok = all(rp or (kind != 'none' and value[name] == default_of(name, kind)) for (name, kind, rp) in fields)
        for w in widths:
            part.n += 1
            case = {'library': lib, 'fields': [list(f) for f in fields], 'variant': variant, 'instance': kwargs, 'width': w}
            r = oracles.run_pformat(inst, width=w)
            if r.exc is not None:
                part.violation('exception', case, r.exc)
                continue
            if any('raised an exception' in m for m in r.warnings):
                part.violation('fallback-warning', case, {'output': r.text, 'warning': r.warnings[0][-200:]})
                continue
            try:
                node = oracles.parse_expr(r.text).body
            except SyntaxError as e:
                part.violation('not-parsable', case, {'output': r.text, 'why': str(e)})
                continue
            if not isinstance(node, ast.Call) or dotted(node.func) != fixtures.__name__ + '.' + cls.__name__:
                part.violation('not-the-constructor-call', case, {'output': r.text})
                continue
            got = [k.arg for k in node.keywords]
            if got != exp or node.args:
                part.violation('wrong-field-selection', case, {'output': r.text, 'expected_keywords': exp})
                continue
            if hidden_ok:
                try:
                    back = oracles.eval_in(r.text, ns)
                    if back != inst:
                        part.violation('does-not-reconstruct-an-equal-instance', case, {'output': r.text})
                        continue
                except Exception as e:     # noqa
                    part.violation('not-evaluable', case, {'output': r.text, 'why': repr(e)})
                    continue
            if exp:
                part.nontrivial += 1
    part.c['classes'] += 1
    # a *different* class with the same qualified name (a class redefined in a REPL or notebook, or
    # built twice by a factory): it must be printed by its own definition, not by a remembered one
    shadow_fields = [(n, k, not rp) for (n, k, rp) in fields] + [('extra', 'default', True)]
    try:
        shadow = mk(shadow_fields, variant, idx)
    except Exception:     # noqa
        return
    kwargs = {name: [8] for (name, kind, rp) in shadow_fields}
    inst = shadow(**kwargs)
    exp = [name for (name, kind, rp) in shadow_fields if rp]
    part.n += 1
    case = {'library': lib, 'fields': [list(f) for f in shadow_fields], 'variant': variant, 'instance': kwargs, 'width': 79,
            'redefinition_of': [list(f) for f in fields]}
    r = oracles.run_pformat(inst, width=79)
    if r.exc is not None or any('raised an exception' in m for m in r.warnings):
        part.violation('redefined-class-fails', case, {'output': r.text, 'exc': r.exc, 'warning': (r.warnings or [''])[0][-200:]})
        return
    try:
        node = oracles.parse_expr(r.text).body
        got = [k.arg for k in node.keywords]
    except Exception as e:     # noqa
        part.violation('redefined-class-not-parsable', case, {'output': r.text, 'why': repr(e)})
        return
    if got != exp:
        part.violation('redefined-class-printed-with-the-old-definition', case, {'output': r.text, 'expected_keywords': exp})


def work(item):
    ensure_registered()
    kind = item[0]
    part = core.Part()
    if kind == 'calls':
        _, lo, hi, widths = item
        cache = {}
        keep = []
        for args, kw in itertools.islice(call_cases(), lo, hi):
            keep.append((args, kw))
            for (cname, fn, fname) in CALLABLES:
                for alt in (True, False, 'dict', 'odict', 'zip', 'gen', 'tuple'):
                    for w in (widths if alt in (True, False) else widths[-1:]):
                        check_call(fn, fname, args, kw, alt, w, part, cache)
        if keep and not part.samples:
            part.sample({'args': repr(keep[-1][0])[:100], 'kwargs': repr(keep[-1][1])[:100]})
    else:
        _, lo, hi, widths = item
        for (lib, mk, fields, variant, idx) in itertools.islice(class_cases(), lo, hi):
            check_class(lib, mk, fields, variant, idx, part, widths)
    return part


def run(tier, seed):
    ensure_registered()
    res = core.Result(PROPERTY, LEVEL, tier, seed)
    widths = (1, 20, 79) if tier == 'quick' else (1, 8, 20, 40, 79)
    ncalls = sum(1 for _ in call_cases())
    ncls = sum(1 for _ in class_cases())
    items = [('calls', lo, hi, widths) for lo, hi in core.chunks(ncalls, 64)]
    items += [('classes', lo, hi, widths) for lo, hi in core.chunks(ncls, 64)]
    res.add(core.pmap(work, items))
    a = res.agg
    res.coverage = {
        'exhaustive': True,
        'rule': 'part A: %d (args, kwargs) lists x %d callables x {pretty_call, pretty_call_alt} x widths %s; part B: %d '
                'class definitions (both libraries, 3 variants) x every default/other assignment of the fields x widths; '
                'non-trivial = multi-line call outputs / instances that show at least one field'
                % (ncalls, len(CALLABLES), list(widths), ncls),
        'classes_checked': a.c['classes'],
        'class_definitions_rejected': {k: v for k, v in a.c.items() if k.startswith('class_definitions_rejected')},
    }
    res.assumptions = ['class definitions the library itself rejects are skipped and counted']
    return res


def replay(case):
    ensure_registered()
    part = core.Part()
    if 'library' in case:
        fields = [tuple(f) for f in case['fields']]
        mk = mk_dataclass if case['library'] == 'dataclasses' else mk_attrs
        check_class(case['library'], mk, fields, case['variant'], 99999, part, (case['width'],))
        mine = [v for v in part.violations if v['case']['instance'] == case['instance']]
    else:
        for args, kw in call_cases():
            if [repr(a)[:40] for a in args] == case['args'] and [(k, repr(v)[:40]) for k, v in kw] == [tuple(x) for x in case['kwargs']]:
                fn = [c for c in CALLABLES if c[2] == case['callable']][0]
                api = case['api']
                alt = False if api == 'pretty_call' else (True if api.endswith('/list') or '/' not in api else api.split('/')[1])
                check_call(fn[1], fn[2], args, kw, alt, case['width'], part, {})
                break
        mine = part.violations
    lines = ['case: %s' % case]
    for v in mine:
        lines.append('violation kind=%s detail=%s' % (v['kind'], v['detail']))
    return not mine, '\n'.join(lines)
