"""C11 - depth cuts off exactly below the requested nesting level.

Exhaustive over labelled ordered trees (every shape up to a node bound, height <= 4, every
assignment of container kinds to the internal nodes, uniquely numbered scalar leaves of rotating
types) x d in {0 .. height+2, None} x widths {20, 79}.
Reference: walk the value with a nesting counter k (the hugged sole list/dict/tuple argument of a
call keeps the level of its call, as the anchors state); the expected AST is the unlimited print's
AST with every node at k >= d replaced by the placeholder of its type.  d > height => the text is
identical to depth=None.
"""
import ast
import copy
import itertools

from .. import core, oracles, fixtures
from ..fixtures import Call

PROPERTY = 'C11'
LEVEL = 'exploration'
FINDING_STRKEY = 'C11/str-key-one-level-late'

S = fixtures.SUBCLASSES
PL, PT, PS, PF, PD = S[list][0], S[tuple][0], S[set][0], S[frozenset][0], S[dict][0]

KINDS = ['list', 'tuple', 'set', 'frozenset', 'dict-int', 'dict-str', 'dict-bytes', 'dict-tuple',
         'PlainList', 'PlainDict', 'PlainSet', 'call', 'call-hug', 'call-kw', 'call-sublist', 'call-namedtuple', 'selfnest']
KINDS_REDUCED = ['list', 'tuple', 'frozenset', 'dict-int', 'dict-str', 'PlainList', 'call', 'call-hug', 'call-sublist', 'selfnest']
NEEDS_HASHABLE_CHILDREN = {'set', 'frozenset', 'PlainSet'}
HASHABLE_KINDS = {'tuple', 'frozenset'}


def shapes(n, maxh):
    """Ordered trees with exactly n nodes and height <= maxh, as nested tuples (leaf = ())."""
    if n == 1:
        yield ()
        return
    if maxh <= 1:
        return
    # forests of total size n-1, 1..3 children
    def forests(total, k):
        if k == 1:
            for t in shapes(total, maxh - 1):
                yield (t,)
            return
        for first in range(1, total - k + 2):
            for t in shapes(first, maxh - 1):
                for rest in forests(total - first, k - 1):
                    yield (t,) + rest
    for k in (1, 2, 3):
        if n - 1 >= k:
            yield from forests(n - 1, k)


def internal_count(shape):
    return 0 if shape == () else 1 + sum(internal_count(c) for c in shape)


class Builder:
    def __init__(self, kinds):
        self.kinds = kinds
        self.i = 0
        self.leaf = 100

    def next_leaf(self):
        self.leaf += 1
        n = self.leaf
        return (n, 's%d' % n, n + 0.5, b'b%d' % n)[n % 4]

    def build(self, shape, need_hashable=False):
        """-> value or raises Skip when the kind assignment is not constructible."""
        if shape == ():
            return self.next_leaf()
        kind = self.kinds[self.i]
        self.i += 1
        if need_hashable and kind not in HASHABLE_KINDS:
            raise Skip()
        ch_hash = kind in NEEDS_HASHABLE_CHILDREN or (need_hashable)
        if kind == 'dict-tuple':
            # children become the elements of tuple keys?  no: children are values, keys are fresh tuples
            pass
        children = [self.build(c, ch_hash) for c in shape]
        n = self.leaf
        if kind == 'list':
            return children
        if kind == 'tuple':
            return tuple(children)
        if kind == 'set':
            return set(children)
        if kind == 'frozenset':
            return frozenset(children)
        if kind == 'PlainList':
            return PL(children)
        if kind == 'PlainSet':
            return PS(children)
        if kind == 'dict-int':
            return {1000 + i: c for i, c in enumerate(children)}
        if kind == 'dict-str':
            return {'k%d' % i: c for i, c in enumerate(children)}
        if kind == 'dict-bytes':
            return {b'k%d' % i: c for i, c in enumerate(children)}
        if kind == 'dict-tuple':
            return {(2000 + i, 'x'): c for i, c in enumerate(children)}
        if kind == 'PlainDict':
            return PD((1000 + i, c) for i, c in enumerate(children))
        if kind == 'call':
            return Call(7, *children)
        if kind == 'call-hug':
            return Call(children)          # sole list argument: hugged
        if kind == 'call-kw':
            return Call(**{'kw%d' % i: c for i, c in enumerate(children)})
        if kind == 'call-sublist':
            return Call(PL(children))      # the sole argument is a list *subclass*: printed by its own printer, not hugged
        if kind == 'call-namedtuple':
            return Call(fixtures.NT(children[0], 0))
        if kind == 'selfnest':
            return SelfNest(*children)     # its printer takes a nesting level itself before delegating
        raise ValueError(kind)


class Skip(Exception):
    pass


class SelfNest:
    """A user type whose printer calls ctx.nested_call() itself and then delegates to
    pretty_call_alt (as the bundled numpy printer does): it occupies one more nesting level."""

    def __init__(self, *args):
        self.args = args

    def __verif_expr__(self):
        return 'SelfNest(%s)' % ', '.join(oracles.expr_of(a) for a in self.args)


_sn = []


def ensure_selfnest():
    if _sn:
        return
    from prettyprinter import register_pretty, pretty_call_alt

    @register_pretty(SelfNest)
    def pretty_selfnest(v, ctx):
        return pretty_call_alt(ctx.nested_call(), SelfNest, args=v.args)
    _sn.append(1)


def gen_values(nmax, maxh, kinds):
    for n in range(2, nmax + 1):
        for shape in shapes(n, maxh):
            m = internal_count(shape)
            for assign in itertools.product(kinds, repeat=m):
                b = Builder(assign)
                try:
                    yield b.build(shape)
                except Skip:
                    continue


# ----------------------------------------------------------------------------- reference

def placeholder_text(v):
    t = type(v)
    q = lambda c: c.__module__ + '.' + c.__qualname__     # noqa
    if t is list:
        return '[...]'
    if t is tuple:
        return '(...)'
    if t is dict:
        return '{...}'
    if t in (set, frozenset, int, float, str, bytes):
        return t.__name__ + '(...)'
    if t is Call:
        return q(Call) + '(...)'
    if t is SelfNest:
        return q(SelfNest) + '(...)'
    if isinstance(v, list):
        return q(t) + '([...])'
    if isinstance(v, tuple) and hasattr(t, '_fields'):
        return q(t) + '(...)'
    if isinstance(v, tuple):
        return q(t) + '((...))'
    if isinstance(v, dict):
        return q(t) + '({...})'
    return q(t) + '(...)'


def placeholder(v):
    return ast.parse(placeholder_text(v), mode='eval').body


def is_leaf(v):
    return type(v) in (int, float, str, bytes)


def expected(node, v, k, d, lenient, stats):
    """The expected AST node for value v (printed as `node` without a limit) at level k."""
    stats['maxk'] = max(stats['maxk'], k)
    if type(v) is SelfNest:
        k += 1                  # the printer consumed a level itself
        stats['maxk'] = max(stats['maxk'], k)
    if d is not None and k >= d:
        stats['cut'] += 1
        return placeholder(v)
    if is_leaf(v):
        return node
    node = copy.copy(node)
    if type(v) is SelfNest:
        hug = len(v.args) == 1 and type(v.args[0]) in (list, dict, tuple)
        node.args = [expected(a, x, k if hug else k + 1, d, lenient, stats) for a, x in zip(node.args, v.args)]
        return node
    if isinstance(v, tuple) and hasattr(type(v), '_fields'):
        kws = []
        for kw, x in zip(node.keywords, v):
            kw = copy.copy(kw)
            kw.value = expected(kw.value, x, k + 1, d, lenient, stats)
            kws.append(kw)
        node.keywords = kws
        return node
    if type(v) is Call:
        hug = len(v.args) == 1 and not v.kwargs and type(v.args[0]) in (list, dict, tuple)
        node.args = [expected(a, x, k if hug else k + 1, d, lenient, stats) for a, x in zip(node.args, v.args)]
        kws = []
        for kw, (name, x) in zip(node.keywords, v.kwargs.items()):
            kw = copy.copy(kw)
            kw.value = expected(kw.value, x, k + 1, d, lenient, stats)
            kws.append(kw)
        node.keywords = kws
        return node
    if isinstance(node, ast.Call):
        # frozenset([...]) or Subclass(<literal>): the literal belongs to the same level
        inner = copy.copy(node.args[0])
        node.args = [inner]
        fill_literal(inner, v, k, d, lenient, stats)
        return node
    fill_literal(node, v, k, d, lenient, stats)
    return node


def fill_literal(lit, v, k, d, lenient, stats):
    if isinstance(v, dict):
        keys, vals = [], []
        for (ko, vo), kn, vn in zip(v.items(), lit.keys, lit.values):
            klevel = k + 1
            if lenient and isinstance(ko, (str, bytes)):
                klevel = k          # the known finding: str/bytes keys use the dict's own level
            keys.append(expected(kn, ko, klevel, d, lenient, stats))
            vals.append(expected(vn, vo, k + 1, d, lenient, stats))
        lit.keys, lit.values = keys, vals
    else:
        lit.elts = [expected(e, x, k + 1, d, lenient, stats) for e, x in zip(lit.elts, list(v))]


def check_value(v, part, widths):
    expr = oracles.expr_of(v)
    for w in widths:
        base = oracles.run_pformat(v, width=w, depth=None)
        part.n += 1
        if not base.ok():
            part.violation('exception' if base.exc else 'warning', {'value': expr, 'config': {'width': w, 'depth': None}},
                           base.exc or base.warnings[:1])
            continue
        try:
            tree = oracles.parse_expr(base.text)
        except SyntaxError as e:
            part.violation('unlimited-not-parsable', {'value': expr, 'config': {'width': w, 'depth': None}}, str(e))
            continue
        st = {'maxk': 0, 'cut': 0}
        expected(tree.body, v, 0, None, False, st)
        maxk = st['maxk']
        for d in range(0, maxk + 4):
            part.n += 1
            cfg = {'width': w, 'depth': d}
            case = {'value': expr, 'config': cfg}
            r = oracles.run_pformat(v, **cfg)
            if not r.ok():
                part.violation('exception' if r.exc else 'warning', case, r.exc or r.warnings[:1])
                continue
            if d > maxk:
                if r.text != base.text:
                    part.violation('differs-from-unlimited-above-height', case, {'output': r.text, 'unlimited': base.text})
                continue
            try:
                got = ast.dump(oracles.parse_expr(r.text))
            except SyntaxError as e:
                part.violation('not-parsable', case, {'output': r.text, 'why': str(e)})
                continue
            st = {'maxk': 0, 'cut': 0}
            want = ast.dump(ast.Expression(expected(tree.body, v, 0, d, False, st)))
            if st['cut']:
                part.nontrivial += 1
            if got == want:
                continue
            st2 = {'maxk': 0, 'cut': 0}
            want2 = ast.dump(ast.Expression(expected(tree.body, v, 0, d, True, st2)))
            if got == want2:
                part.violation('str-key-one-level-late', case, {'output': r.text}, finding=FINDING_STRKEY)
            else:
                part.violation('wrong-cut', case, {'output': r.text, 'unlimited': base.text,
                                                   'expected_ast': ast.unparse(ast.Expression(expected(tree.body, v, 0, d, False, st)))})


class Narrow:
    """A user type whose printer narrows a setting *on its own nested context* (as the bundled numpy
    printer does with max_seq_len): that must stay its own business at every depth, None included."""

    def __init__(self, x):
        self.x = x

    def __verif_expr__(self):
        return 'Narrow(%s)' % oracles.expr_of(self.x)

    def __eq__(self, other):
        return type(other) is Narrow and other.x == self.x

    def __hash__(self):
        return hash(('Narrow', self.x))


def ensure_narrow():
    if 'narrow' in _sn:
        return
    from prettyprinter import register_pretty, pretty_call_alt

    @register_pretty(Narrow)
    def pretty_narrow(v, ctx):
        own = ctx.nested_call()
        own.max_seq_len = 1
        own.sort_dict_keys = True
        return pretty_call_alt(own, Narrow, args=(v.x,))
    _sn.append('narrow')


def mutating_values():
    import collections, types
    sib = [3, 1, 2]
    dsib = {'b': 1, 'a': 2}
    for N in (Narrow(5), Narrow([7, 8, 9])):
        for S in (sib, dsib):
            yield Call(N, S)
            yield Call(S, N)
            yield Call(a=N, b=S)
            yield fixtures.NT(N, S)
            yield SelfNest(N, S)
            yield [N, S]
            yield (N, S)
            yield {'x': N, 'y': S}
            yield [Call(N), S]
            yield Call(Call(N), S)
            yield Call([N], S)


def check_mutating(part):
    env = dict(fixtures.namespace())
    env.update({'SelfNest': SelfNest, 'Narrow': Narrow})
    SelfNest.__eq__ = lambda a, b: type(b) is SelfNest and a.args == b.args
    for v in mutating_values():
        for depth in (None, 50, 6):
            for width in (20, 79):
                part.n += 1
                cfg = {'depth': depth, 'width': width}
                case = {'value': oracles.expr_of(v), 'config': cfg, 'kind': 'mutating-printer'}
                r = oracles.run_pformat(v, **cfg)
                if r.exc is not None or r.warnings:
                    part.violation('exception', case, r.exc or r.warnings[:1])
                    continue
                # Narrow's own argument is truncated by its own printer; everything else must be complete
                want = oracles.run_pformat(v, depth=49, width=width).text
                try:
                    tree = oracles.parse_expr(r.text)
                except SyntaxError as e:
                    part.violation('not-parsable', case, {'output': r.text, 'why': str(e)})
                    continue
                consts = sorted(n.value for n in ast.walk(tree) if isinstance(n, ast.Constant) and isinstance(n.value, int))
                exp = sorted([1, 2, 3] if (isinstance(v, (list, tuple)) and any(x == [3, 1, 2] for x in v)) or '[3, 1, 2]' in case['value'] else [1, 2])
                rest = [c for c in consts if c in (1, 2, 3)]
                dict_order_ok = ("'b': 1" not in r.text) or r.text.index("'b': 1") < r.text.index("'a': 2")
                if r.text != want or rest != exp or not dict_order_ok:
                    part.violation('wrong-cut', case, {'output': r.text, 'same_value_at_depth_49': want,
                                                       'sibling_elements_found': rest, 'expected': exp})
                else:
                    part.nontrivial += 1
    part.c['mutating_printer_values'] += 1


def work(item):
    fixtures.register()
    ensure_selfnest()
    ensure_narrow()
    if item[0] == 'mutating':
        part = core.Part()
        check_mutating(part)
        return part
    nmax, maxh, kname, lo, hi = item
    kinds = KINDS if kname == 'full' else KINDS_REDUCED
    part = core.Part()
    for v in itertools.islice(gen_values(nmax, maxh, kinds), lo, hi):
        check_value(v, part, (20, 79))
        part.c['values'] += 1
        if len(part.samples) < 1 and part.c['values'] > 50:
            part.sample({'value': oracles.expr_of(v)})
    return part


def run(tier, seed):
    fixtures.register()
    ensure_selfnest()
    res = core.Result(PROPERTY, LEVEL, tier, seed)
    plan = [(4, 4, 'full'), (5, 4, 'reduced')] if tier == 'quick' else [(5, 4, 'full'), (6, 4, 'reduced')]
    items, desc = [], []
    for nmax, maxh, kname in plan:
        kinds = KINDS if kname == 'full' else KINDS_REDUCED
        total = sum(1 for _ in gen_values(nmax, maxh, kinds))
        items += [(nmax, maxh, kname, lo, hi) for lo, hi in core.chunks(total, 96)]
        desc.append('trees with <= %d nodes, height <= %d, %s kinds (%d): %d values' % (nmax, maxh, kname, len(kinds), total))
    items.append(('mutating',))
    desc.append('%d values in which a printer that narrows max_seq_len / sort_dict_keys on its own nested context sits '
                'next to a longer sibling (call args, kwargs, namedtuple, list, tuple, dict, self-nesting printer) x depth '
                '{None, 50, 6} x widths {20, 79}: the sibling is complete and depth=None equals a large depth' % sum(1 for _ in mutating_values()))
    res.add(core.pmap(work, items))
    res.coverage = {
        'exhaustive': True,
        'rule': 'every shape x every kind assignment (hashability permitting) x d in 0..height+3 and None x widths '
                '{20,79}; non-trivial = (value, d) cases in which at least one node is cut',
        'spaces': desc,
        'observations': 'empty containers and bool/None leaves are outside the domain of the statement '
                        '(uniquely numbered scalar leaves): [] () set() print in full below the cut, {} prints {...}',
    }
    res.assumptions = ['the hugged sole list/dict/tuple argument of a call keeps the level of the call (anchors)']
    return res


def replay(case):
    fixtures.register()
    ensure_selfnest()
    env = dict(fixtures.namespace())
    env.update({c.__name__: c for cs in fixtures.SUBCLASSES.values() for c in cs})
    env.update({'SelfNest': SelfNest, 'NT': fixtures.NT})
    if case.get('kind') == 'mutating-printer':
        ensure_narrow()
        part = core.Part()
        check_mutating(part)
        mine = [x for x in part.violations if x['case'] == case]
        return not mine, '\n'.join(['value: %s' % case['value'], 'config: %s' % case['config']] + ['violation kind=%s detail=%s' % (x['kind'], x['detail']) for x in mine])
    v = eval(case['value'], env)
    part = core.Part()
    check_value(v, part, (case['config']['width'],))
    mine = [x for x in part.violations if x['case']['config'] == case['config']]
    r = oracles.run_pformat(v, **case['config'])
    lines = ['value: %s' % case['value'], 'config: %s' % case['config'], 'output:', str(r.text)]
    for x in mine:
        lines.append('violation kind=%s finding=%s detail=%s' % (x['kind'], x.get('finding'), x['detail']))
    return not mine, '\n'.join(lines)
