"""C16 - coloured output is the plain output plus well-nested styling.

(a) values (all value trees <= 2 nodes + strings with escapes, commented values, calls, stdlib
    values) x widths {10, 30, 79} x every pygments style shipped with the installed pygments plus
    the two bundled styles x colour modes {8, 256, true colour}, colour forced on;
(b) every annotated document up to a node bound over {text, LINE, concat, group, annotate(token)
    for three tokens, annotate(non-token)} through colored_render_to_stream(layout_smart(doc)).
Oracle: an SGR state machine written for this check decodes the output; without the escape
sequences it is exactly the plain rendering; in true-colour mode every non-blank character has
exactly the (fg, bg, bold, italic, underline) attributes that style.style_for_token gives for the
innermost enclosing *token* annotation of the SDoc stream (reset outside any); the stream ends in
the reset state; no style makes rendering fail; every syntax Token has a mapping.
"""
import io
import itertools
import re
import types

from .. import core, oracles, docalg, values, fixtures
from ..fixtures import Call

PROPERTY = 'C16'
LEVEL = 'exploration'

SGR = re.compile(r'\x1b\[([0-9;]*)m')
RESET = (None, None, False, False, False)


def decode(s):
    """-> ([(char, state)], final state); state = (fg, bg, bold, italic, underline)."""
    out = []
    st = {'fg': None, 'bg': None, 'bold': False, 'italic': False, 'underline': False}
    pos = 0
    for m in SGR.finditer(s):
        cur = tuple(st.values())
        out.extend((ch, cur) for ch in s[pos:m.start()])
        codes = [int(c) for c in m.group(1).split(';') if c != ''] or [0]
        i = 0
        while i < len(codes):
            c = codes[i]
            if c == 0:
                st = {'fg': None, 'bg': None, 'bold': False, 'italic': False, 'underline': False}
            elif c == 1:
                st['bold'] = True
            elif c == 3:
                st['italic'] = True
            elif c == 4:
                st['underline'] = True
            elif c == 22:
                st['bold'] = False
            elif c == 23:
                st['italic'] = False
            elif c == 24:
                st['underline'] = False
            elif c == 39:
                st['fg'] = None
            elif c == 49:
                st['bg'] = None
            elif c in (38, 48):
                key = 'fg' if c == 38 else 'bg'
                if codes[i + 1] == 2:
                    st[key] = tuple(codes[i + 2:i + 5])
                    i += 4
                elif codes[i + 1] == 5:
                    st[key] = ('idx', codes[i + 2])
                    i += 2
                else:
                    raise ValueError(codes)
            elif 30 <= c <= 37 or 90 <= c <= 97:
                st['fg'] = ('ansi', c)
            elif 40 <= c <= 47 or 100 <= c <= 107:
                st['bg'] = ('ansi', c)
            else:
                raise ValueError('unknown SGR code %r' % (codes,))
            i += 1
        pos = m.end()
    cur = tuple(st.values())
    out.extend((ch, cur) for ch in s[pos:])
    if '\x1b' in ''.join(ch for ch, _ in out):
        raise ValueError('escape sequence that is not SGR')
    return out, cur


def hexrgb(h):
    return tuple(int(h[i:i + 2], 16) for i in (0, 2, 4)) if h else None


def token_table():
    """The package's own syntax-token -> pygments-token table (the meaning of a token's style).  Found by
    shape, not by name; None if the package no longer has such a table."""
    import prettyprinter.color as color
    from prettyprinter.syntax import Token
    t = getattr(color, '_SYNTAX_TOKEN_TO_PYGMENTS_TOKEN', None)
    if isinstance(t, dict):
        return t
    for v in vars(color).values():
        if isinstance(v, dict) and v and all(isinstance(k, Token) for k in v):
            return v
    return None


def style_state(style, tok):
    a = style.style_for_token(token_table()[tok])
    return (hexrgb(a['color']), hexrgb(a['bgcolor']), bool(a['bold']), bool(a['italic']), bool(a['underline']))


def expected_nonblank(sdocs, style):
    """[(char, state)] for the non-blank characters, from the annotation structure of the stream."""
    from prettyprinter.sdoctypes import SAnnotationPush, SAnnotationPop
    from prettyprinter.syntax import Token
    stack = []      # states of enclosing *token* annotations
    out = []
    for s in sdocs:
        if isinstance(s, str):
            cur = stack[-1] if stack else RESET
            out.extend((ch, cur) for ch in s if not ch.isspace())
        elif isinstance(s, SAnnotationPush):
            if isinstance(s.value, Token):
                stack.append(style_state(style, s.value))
            else:
                stack.append(stack[-1] if stack else RESET)
        elif isinstance(s, SAnnotationPop):
            if stack:
                stack.pop()
    return out


def all_styles():
    from pygments.styles import get_all_styles, get_style_by_name
    from prettyprinter.color import GitHubLightStyle, default_dark_style
    out = [(n, get_style_by_name(n)) for n in sorted(get_all_styles())]
    out.append(('bundled-light', GitHubLightStyle))
    out.append(('bundled-dark', default_dark_style))
    return out


def named_styles():
    """The names cpprint documents for its style parameter -> the style they stand for."""
    from prettyprinter.color import GitHubLightStyle, default_dark_style
    return [('light', GitHubLightStyle), ('dark', default_dark_style)]


def set_mode(mode):
    import colorful
    {'8': colorful.use_8_ansi_colors, '256': colorful.use_256_ansi_colors, 'true': colorful.use_true_colors}[mode]()


def corpus():
    from prettyprinter import comment, trailing_comment
    t = values.Trees()
    for n in (1, 2):
        yield from t.gen(n)
    yield 'a\n\t\\ \x00 \xe9 "q" \'s\''
    yield b'by\x00tes \xff'
    yield 'word ' * 12
    yield [1, 'a\n', b'y', None, 2.5, {'k': (1,)}]
    yield comment([1, 2], 'hello there')
    yield {'a': comment('x' * 30, 'c'), comment('k', 'kc'): 1}
    yield trailing_comment([1, comment(2, 'two')], 'more')
    yield Call(1, [2], kw='v')
    yield types.SimpleNamespace(a=1, b='two')
    yield float('nan')
    yield frozenset([1])
    yield fixtures.Color.RED
    yield [int, len, Call]
    import datetime
    yield datetime.timedelta(days=400, seconds=5)
    yield -0.0


def check_value(v, vi, part, styles, modes, widths):
    import prettyprinter
    from prettyprinter import cpprint, python_to_sdocs
    for w in widths:
        plain = oracles.run_pformat(v, width=w)
        if not plain.ok():
            continue
        cfg = dict(prettyprinter.get_default_config())
        cfg.update(width=w)
        try:
            sdocs = list(python_to_sdocs(v, **cfg))
        except Exception as e:     # noqa
            part.violation('sdocs-exception', {'value_index': vi, 'width': w}, repr(e))
            continue
        for sname, style in styles:
            exp = None
            for mode in modes:
                set_mode(mode)
                part.n += 1
                case = {'value_index': vi, 'value': repr(v)[:120], 'width': w, 'style': sname, 'mode': mode}
                s = io.StringIO()
                try:
                    cpprint(v, stream=s, style=style, width=w, end='')
                except Exception as e:     # noqa
                    part.violation('style-makes-rendering-fail', case, '%s: %s' % (type(e).__name__, e))
                    continue
                try:
                    chars, final = decode(s.getvalue())
                except ValueError as e:
                    part.violation('undecodable-escape', case, str(e))
                    continue
                if ''.join(c for c, _ in chars) != plain.text:
                    part.violation('text-differs-from-plain', case, {'colored_stripped': ''.join(c for c, _ in chars), 'plain': plain.text})
                    continue
                if final != RESET:
                    part.violation('stream-does-not-end-in-reset', case, {'final_state': repr(final)})
                if mode == 'true':
                    if exp is None:
                        exp = expected_nonblank(sdocs, style)
                    got = [(c, st) for c, st in chars if not c.isspace()]
                    if got != exp:
                        j = next((i for i, (a, b) in enumerate(zip(got, exp)) if a != b), min(len(got), len(exp)))
                        part.violation('character-style-differs', case, {
                            'at_nonblank_index': j, 'got': repr(got[j:j + 3]), 'expected': repr(exp[j:j + 3])})
                    else:
                        part.nontrivial += 1
    set_mode('true')


# ----------------------------------------------------------------------------- (b) annotated documents

def doc_alphabet():
    leaves = [['t', 'a'], ['t', ' b'], ['line']]
    unary = [lambda d: ['group', d], lambda d: ['ann', 'T:KEYWORD_CONSTANT', d], lambda d: ['ann', 'T:LITERAL_STRING', d],
             lambda d: ['ann', 'T:COMMENT_SINGLE', d], lambda d: ['ann', 'other', d],
             # not syntax tokens, but equal (==) to the numbers of the tokens above: 1 == KEYWORD_CONSTANT, 6.0 == LITERAL_STRING
             lambda d: ['ann', 1, d], lambda d: ['ann', 6.0, d]]
    return docalg.Alphabet(leaves, unary, fc=False, cat=(2, 3), fill=None)


def ann_depth(t):
    k = t[0]
    if k == 'ann':
        return 1 + ann_depth(t[2])
    if k == 'cat':
        return max(ann_depth(c) for c in t[1])
    if k == 'group':
        return ann_depth(t[1])
    return 0


def check_doc(term, part, styles):
    from prettyprinter.layout import layout_smart
    from prettyprinter.color import colored_render_to_stream
    from prettyprinter.render import default_render_to_str
    doc = docalg.build(term)
    for w in (80, 1):
        sdocs = list(layout_smart(doc, width=w))
        plain = default_render_to_str(list(sdocs))
        for sname, style in styles:
            part.n += 1
            case = {'term': term, 'show': docalg.show(term), 'width': w, 'style': sname}
            s = io.StringIO()
            try:
                # first with other line-break strings (must equal the plain renderer with the same strings) ...
                s2 = io.StringIO()
                colored_render_to_stream(s2, list(sdocs), style=style, newline='\r\n', separator='\t')
                chars2, _ = decode(s2.getvalue())
                plain2 = default_render_to_str(list(sdocs), newline='\r\n', separator='\t')
                if ''.join(c for c, _ in chars2) != plain2:
                    part.violation('text-differs-from-plain', dict(case, newline='\\r\\n', separator='\\t'),
                                   {'colored_stripped': ''.join(c for c, _ in chars2), 'plain': plain2})
                # ... then with the defaults
                colored_render_to_stream(s, list(sdocs), style=style)
                chars, final = decode(s.getvalue())
            except Exception as e:     # noqa
                part.violation('document-rendering-fails', case, '%s: %s' % (type(e).__name__, e))
                continue
            if ''.join(c for c, _ in chars) != plain:
                part.violation('text-differs-from-plain', case, {'colored_stripped': ''.join(c for c, _ in chars), 'plain': plain})
                continue
            if final != RESET:
                part.violation('stream-does-not-end-in-reset', case, {'final_state': repr(final)})
            exp = expected_nonblank(sdocs, style)
            got = [(c, st) for c, st in chars if not c.isspace()]
            if got != exp:
                part.violation('character-style-differs', case, {'got': repr(got)[:300], 'expected': repr(exp)[:300]})
            elif ann_depth(term) >= 2:
                part.nontrivial += 1


def scaled_values():
    yield 'ints-6000', list(range(6000)), {'max_seq_len': None}
    yield 'records-400', [{'id': i, 'name': 'n%d' % i, 'tags': ('a', i)} for i in range(400)], {}
    yield 'records-1500', [{'id': i, 'name': 'n%d' % i} for i in range(1500)], {'max_seq_len': 2000}
    yield 'long-strings', ['word ' * 40] * 300, {}


def check_scaled(part, styles):
    """Renders of tens of thousands of pieces (texts, escapes, line breaks): same text, ends in reset."""
    from prettyprinter import cpprint, pformat
    for name, v, kw in scaled_values():
        for w in (20, 79):
            plain = pformat(v, width=w, **kw)
            for sname, style in styles[:2]:
                part.n += 1
                case = {'scaled_value': name, 'width': w, 'style': sname, 'settings': {k: repr(x) for k, x in kw.items()}}
                s = io.StringIO()
                try:
                    cpprint(v, stream=s, style=style, width=w, end='', **kw)
                    chars, final = decode(s.getvalue())
                except Exception as e:     # noqa
                    part.violation('style-makes-rendering-fail', case, '%s: %s' % (type(e).__name__, e))
                    continue
                text = ''.join(c for c, _ in chars)
                if text != plain:
                    j = next((i for i, (a, b) in enumerate(zip(text, plain)) if a != b), min(len(text), len(plain)))
                    part.violation('text-differs-from-plain', case, {'lengths': [len(text), len(plain)], 'first_difference_at': j,
                                                                   'colored_stripped': text[max(0, j - 40):j + 40], 'plain': plain[max(0, j - 40):j + 40]})
                elif final != RESET:
                    part.violation('stream-does-not-end-in-reset', case, {'final_state': repr(final)})
                else:
                    part.nontrivial += 1
                part.c['scaled_pieces'] += len(chars)


def check_environment(part):
    """Width not given: the coloured output is laid out with the same configured default as the plain
    output, whatever the terminal says (COLUMNS / LINES in the environment)."""
    import os
    from prettyprinter import cpprint, pprint
    vals = [['word'] * 14, {'key%d' % i: 'v' * 9 for i in range(6)}, 'lorem ipsum ' * 9, Call(1, [2] * 20, kw='v' * 30)]
    saved = {k: os.environ.get(k) for k in ('COLUMNS', 'LINES')}
    try:
        for cols in (None, '200', '79', '60', '40', '12'):
            if cols is None:
                os.environ.pop('COLUMNS', None)
            else:
                os.environ['COLUMNS'] = cols
                os.environ['LINES'] = '10'
            for vi, v in enumerate(vals):
                part.n += 1
                case = {'environment': {'COLUMNS': cols}, 'value': repr(v)[:80], 'width': 'not given'}
                a, b = io.StringIO(), io.StringIO()
                try:
                    cpprint(v, stream=a)
                    pprint(v, stream=b)
                    chars, final = decode(a.getvalue())
                except Exception as e:     # noqa
                    part.violation('style-makes-rendering-fail', case, '%s: %s' % (type(e).__name__, e))
                    continue
                text = ''.join(c for c, _ in chars)
                if text != b.getvalue():
                    part.violation('text-differs-from-plain', case, {'colored_stripped': text, 'plain': b.getvalue()})
                else:
                    part.nontrivial += 1
    finally:
        for k, x in saved.items():
            if x is None:
                os.environ.pop(k, None)
            else:
                os.environ[k] = x


def work(item):
    fixtures.register()
    set_mode('true')
    kind = item[0]
    part = core.Part()
    styles = all_styles()
    if kind == 'scaled':
        check_scaled(part, styles)
        return part
    if kind == 'environment':
        check_environment(part)
        return part
    if kind == 'values':
        _, lo, hi, modes, widths = item
        for vi, v in itertools.islice(enumerate(corpus()), lo, hi):
            check_value(v, vi, part, styles, modes, widths)
            part.c['values'] += 1
        if hi > lo and not part.samples:
            part.sample({'value': repr(v)[:100], 'styles': len(styles)})
    else:
        _, n, lo, hi = item
        a = doc_alphabet()
        bundled = [s for s in styles if s[0].startswith('bundled')] + [s for s in styles if s[0] in ('algol', 'murphy', 'default')]
        for term in itertools.islice(a.gen(n), lo, hi):
            if ann_depth(term) <= 3:
                check_doc(term, part, bundled)
                part.c['documents'] += 1
    return part


def run(tier, seed):
    fixtures.register()
    res = core.Result(PROPERTY, LEVEL, tier, seed)
    from prettyprinter.syntax import Token
    table = token_table()
    for tok in Token:
        res.agg.n += 1
        if table is not None and tok not in table:
            res.agg.violation('token-without-mapping', {'token': tok.name})
    # the style names documented for cpprint(style=...) give the same bytes as the style classes
    from prettyprinter import cpprint
    set_mode('true')
    for name, style in named_styles():
        for v in ([1, 'a', None], {'k': (1.5, b'x')}):
            res.agg.n += 1
            a, b = io.StringIO(), io.StringIO()
            try:
                cpprint(v, stream=a, style=style)
                cpprint(v, stream=b, style=name)
                if a.getvalue() != b.getvalue():
                    res.agg.violation('named-style-differs-from-its-class', {'style': name, 'value': repr(v)}, {'by_name': b.getvalue()[:200]})
            except Exception as e:     # noqa
                res.agg.violation('style-makes-rendering-fail', {'style': name, 'value': repr(v), 'mode': 'true', 'width': 79}, '%s: %s' % (type(e).__name__, e))
    nvals = sum(1 for _ in corpus())
    modes = ('true', '256', '8')
    widths = (10, 30, 79)
    items = [('values', lo, hi, modes, widths) for lo, hi in core.chunks(nvals, 96)]
    a = doc_alphabet()
    kmax = 6 if tier == 'quick' else 7
    for n in range(1, kmax):
        a.terms(n)
    desc = []
    for n in range(1, kmax + 1):
        total = sum(1 for _ in a.gen(n))
        items += [('docs', n, lo, hi) for lo, hi in core.chunks(total, 1 if total < 500 else 48)]
        desc.append('annotated documents with %d nodes: %d' % (n, total))
    items += [('scaled',), ('environment',)]
    res.add(core.pmap(work, items))
    res.coverage = {
        'exhaustive': True,
        'scaled': '%s at widths {20,79} x 2 styles (renders of 30 000 .. 200 000 pieces); environment: width not given, '
                  'COLUMNS in {unset,200,79,60,40,12} x 4 values, cpprint against pprint' % [n for n, _, _ in scaled_values()],
        'rule': 'every corpus value x widths %s x every style x modes %s; every annotated document of the stated sizes '
                '(annotation nesting <= 3) x widths {80, 1} x 5 styles; non-trivial = true-colour cases whose per-character '
                'styles were matched (values) / documents with annotation nesting >= 2' % (list(widths), list(modes)),
        'values': nvals, 'styles': [n for n, _ in all_styles()], 'document_spaces': desc,
    }
    res.assumptions = ['pygments style_for_token is the meaning of a style', 'blank characters carry no visible style and '
                       'are compared only through the stripped text']
    return res


def replay(case):
    fixtures.register()
    set_mode('true')
    part = core.Part()
    styles = [s for s in all_styles() if s[0] == case.get('style')]
    if 'term' in case:
        check_doc(case['term'], part, styles)
    elif 'scaled_value' in case:
        check_scaled(part, all_styles())
        part.violations = [v for v in part.violations if v['case'] == case]
    elif 'environment' in case:
        check_environment(part)
        part.violations = [v for v in part.violations if v['case'] == case]
    else:
        v = list(corpus())[case['value_index']]
        check_value(v, case['value_index'], part, styles, (case['mode'],), (case['width'],))
    lines = ['case: %s' % case]
    for v in part.violations:
        lines.append('violation kind=%s detail=%s' % (v['kind'], v['detail']))
    return not part.violations, '\n'.join(lines)
