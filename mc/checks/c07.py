"""C07 - bundled printers are total, and faithful for standard-library types.

Per type the full cross product of small boundary domains (no random draws), each instance in
five placements x the L-driven width lattice x indents.  Oracle: no exception, no fallback
warning; the evaluated output has the same type and is equal (field-wise for identity-equal types).
Totality of the built-in printers is additionally checked on the C01 value trees.
"""
import collections
import datetime as dt
import enum
import functools
import itertools
import pathlib
import types
import uuid

import pytz

from .. import core, oracles, fixtures, values
from ..fixtures import Call, NT, NT0, NT3, Color, IE, SE, Fl, f, factory, Period, Shift, FloatE, BytesE

PROPERTY = 'C07'


def _ntk(field):
    """A module-level namedtuple class with one field of the given name (made once, reachable by name)."""
    cname = 'NTK_' + field
    if cname not in globals():
        c = collections.namedtuple(cname, [field], rename=True)
        c.__module__ = __name__
        globals()[cname] = c
    return globals()[cname]

LEVEL = 'exploration'

CONTENTS = [1, 'x', [2, 3], None]
# a string with both kinds of quotes, long enough to be split inside the containers that hold it
QUOTED = 'say "hi" to it\'s owner, then "leave" at once and don\'t look back'


def namespace():
    ns = fixtures.namespace()
    ns.update({'datetime': dt, 'collections': collections, 'uuid': uuid, 'enum': enum, 'types': types,
               'functools': functools, 'pathlib': pathlib, 'pytz': pytz, 'mappingproxy': types.MappingProxyType})
    return ns


def timedeltas():
    for d in (0, 1, -1, 364, 365, 366, 730, 731, 999999999, -999999999):
        for s in (0, 1, 59, 60, 3599, 3600, 86399):
            for us in (0, 1, 999, 1000, 999999):
                try:
                    yield dt.timedelta(days=d, seconds=s, microseconds=us)
                except OverflowError:
                    pass


# zero-run boundaries of the time fields (the printers drop leading zero fields)
TIME_FIELDS = [(0, 0, 0, 0), (0, 0, 0, 1), (0, 0, 59, 0), (0, 59, 0, 0), (23, 0, 0, 0), (23, 59, 59, 999999), (0, 0, 1, 999999), (1, 0, 0, 1)]


def tzinfos():
    return [None, dt.timezone.utc, dt.timezone(dt.timedelta(hours=1)), dt.timezone(dt.timedelta(hours=-23, minutes=-59), 'N'),
            dt.timezone(dt.timedelta(0), 'zero'), dt.timezone(dt.timedelta(seconds=1, microseconds=5)),
            pytz.utc, pytz.timezone('Europe/Helsinki'), pytz.timezone('US/Eastern'), pytz.FixedOffset(90),
            pytz.timezone('GMT'), pytz.timezone('Etc/UTC'), pytz.timezone('Etc/GMT+5'), pytz.timezone('Zulu'),
            pytz.timezone('Etc/GMT-14'), pytz.FixedOffset(0)]


def datetimes():
    tzs = tzinfos()
    for y, mo, d in ((1, 1, 1), (2000, 12, 28), (9999, 12, 31)):
        for h, mi, s, us in TIME_FIELDS:
            for tz in tzs:
                for fold in (0, 1):
                    try:
                        yield dt.datetime(y, mo, d, h, mi, s, us, tzinfo=tz, fold=fold)
                    except OverflowError:
                        pass
    yield pytz.timezone('Europe/Helsinki').localize(dt.datetime(2020, 7, 1, 12))
    yield pytz.timezone('US/Eastern').localize(dt.datetime(2020, 1, 1, 12))


def times():
    for h, mi, s, us in TIME_FIELDS:
        for tz in tzinfos()[:7] + tzinfos()[10:12]:
            for fold in (0, 1):
                yield dt.time(h, mi, s, us, tzinfo=tz, fold=fold)


def dates():
    for y, mo, d in ((1, 1, 1), (2000, 2, 29), (9999, 12, 31), (1970, 1, 1)):
        yield dt.date(y, mo, d)


def collections_values():
    C = CONTENTS
    yield collections.OrderedDict()
    for a, b in itertools.product(C, repeat=2):
        yield collections.OrderedDict([('k', a), (2, b)])
    for fac in (None, int, list, factory):
        yield collections.defaultdict(fac)
        for a in C:
            yield collections.defaultdict(fac, {'k': a})
    yield collections.deque()
    yield collections.deque(maxlen=0)
    yield collections.deque(maxlen=3)
    for a, b in itertools.product(C, repeat=2):
        yield collections.deque([a, b])
        yield collections.deque([a, b], maxlen=2)
        yield collections.deque([a, b], maxlen=5)
    yield collections.Counter()
    yield collections.Counter('aab')
    yield collections.Counter({'x': 3, 'y': -1, 2: 0})
    yield collections.ChainMap()
    yield collections.ChainMap({})
    for a in C:
        yield collections.ChainMap({'k': a})
        yield collections.ChainMap({'k': a}, {})
        yield collections.ChainMap({}, {'j': a})
    yield types.MappingProxyType({})
    for a in C:
        yield types.MappingProxyType({'k': a})
    yield types.SimpleNamespace()
    for a, b in itertools.product(C, repeat=2):
        yield types.SimpleNamespace(a=a, b=b)
    yield NT0()
    for a, b in itertools.product(C, repeat=2):
        yield NT(a, b)
    yield NT3(1, 'two', [3])


def misc_values():
    yield uuid.UUID(int=0)
    yield uuid.UUID(int=2 ** 128 - 1)
    yield uuid.UUID('12345678-1234-5678-1234-567812345678')
    yield from Color
    yield from IE
    yield from SE
    yield from Period      # Enum members with a timedelta / time / float / bytes mixin
    yield from Shift
    yield from FloatE
    yield from BytesE
    yield Fl.X
    yield Fl.Y
    yield functools.partial(f)
    yield functools.partial(int, '3', base=8)
    for a, b in itertools.product(CONTENTS, repeat=2):
        yield functools.partial(f, a)
        yield functools.partial(f, a, k=b)
        yield functools.partial(f, a, b, k=a, j=b)
    yield ValueError(QUOTED)
    yield collections.OrderedDict([(QUOTED, 1)])
    yield collections.deque([QUOTED, 1])
    yield NT(QUOTED, 1)
    yield types.SimpleNamespace(a=QUOTED)
    yield functools.partial(f, QUOTED)
    # keyword / attribute / field names equal to the parameter names of the library's own helpers
    for name in ('ctx', 'fn', 'args', 'kwargs', 'value', 'self', 'trailing_comment', 'doc'):
        yield functools.partial(f, 1, **{name: 2})
        yield types.SimpleNamespace(**{name: 1})
        yield _ntk(name)(3)
    yield functools.partial(f, ctx=1, fn=len, args=(1,), kwargs={'a': 1})
    for E in (ValueError, KeyError, OSError, StopIteration, Exception, ZeroDivisionError):
        yield E()
        for a in CONTENTS:
            yield E(a)
            yield E(a, 2)
    yield UnicodeDecodeError('utf8', b'x', 0, 1, 'r')
    for P in (pathlib.PurePosixPath, pathlib.PureWindowsPath):
        for s in ('a/b', '/', '.', 'c:/x/y', '//a//b', 'a/../b/c', '/'.join('seg%d' % i for i in range(30)),
                  'x' * 100, "it's", 'sp ace/q"uote',
                  '//srv/share/' + '/'.join('seg%d' % i for i in range(12)), '//server/share/some dir/another dir/file name.txt',
                  '//' + 'a' * 30 + '//' + 'b' * 30, '/' + '/'.join('d' * 9 for _ in range(8))):
            yield P(s)
    yield from tzinfos()[1:]


def all_values():
    return itertools.chain(timedeltas(), dates(), datetimes(), times(), collections_values(), misc_values())


def eq(a, b):
    if isinstance(b, enum.Enum):
        # a member of a mixin Enum (class Period(timedelta, Enum)) may be printed by the mixin type's printer:
        # the result is an equal object of that base type, which is all the statement asks for
        return a is b or (type(a) in type(b).__mro__ and a == b)
    if type(a) is not type(b):
        return False
    if isinstance(a, BaseException):
        return fixtures.deep_canon(a.args) == fixtures.deep_canon(b.args)
    if isinstance(a, functools.partial):
        return (a.func, a.args, a.keywords) == (b.func, b.args, b.keywords)
    if isinstance(a, collections.deque):
        return a == b and a.maxlen == b.maxlen
    if isinstance(a, collections.defaultdict):
        return a == b and a.default_factory == b.default_factory
    if isinstance(a, (dt.datetime, dt.time)):
        # == ignores the zone of aware times only through the offset; names of fixed-offset zones are not
        # part of timezone equality (timezone(timedelta(0), 'zero') == timezone.utc), so they are not required
        return a.replace(tzinfo=None) == b.replace(tzinfo=None) and a.fold == b.fold \
            and a.utcoffset() == b.utcoffset() and (a.tzinfo is None) == (b.tzinfo is None)
    if isinstance(a, dt.tzinfo):
        probe = dt.datetime(2020, 1, 1)
        return a == b or (a.utcoffset(probe) == b.utcoffset(probe) and a.tzname(probe) == b.tzname(probe))
    if isinstance(a, collections.ChainMap):
        return a.maps == b.maps
    if isinstance(a, collections.OrderedDict):
        return list(a.items()) == list(b.items())
    return a == b


def hashable(v):
    try:
        hash(v)
        return True
    except TypeError:
        return False


def placements(v):
    yield 'top', v, lambda r: r
    yield 'list', [v, 1], lambda r: r[0]
    yield 'dictval', {'k': v}, lambda r: r['k']
    yield 'call', Call(v, kw=v), lambda r: r.args[0]
    if hashable(v):
        yield 'dictkey', {v: 1}, lambda r: next(iter(r))


def check_value(v, part, rmode, indents):
    ns = namespace()
    for pname, placed, extract in placements(v):
        base, L = oracles.one_line(placed)
        case0 = {'value': repr(v)[:200], 'type': type(v).__name__, 'placement': pname}
        if base.text is None or base.warnings:
            part.n += 1
            part.violation('exception' if base.exc else 'fallback-warning', dict(case0, config={'width': 10 ** 6}),
                           base.exc or base.warnings[0][-300:])
            continue
        if L is None:
            L = max(len(x) for x in base.text.split('\n'))
        cache = {}
        for (w, r) in values.width_lattice(L, rmode, cap=50):
            for ind in indents:
                part.n += 1
                cfg = {'width': w, 'ribbon_width': r, 'indent': ind}
                case = dict(case0, config=cfg)
                res = oracles.run_pformat(placed, **cfg)
                if res.exc is not None:
                    part.violation('exception', case, res.exc)
                    continue
                if res.warnings:
                    part.violation('fallback-warning', case, res.warnings[0][-300:])
                    continue
                verdict = cache.get(res.text)
                if verdict is None:
                    try:
                        got = extract(oracles.eval_in(res.text, ns))
                    except Exception as e:     # noqa
                        verdict = ('not-evaluable', '%s: %s' % (type(e).__name__, e))
                    else:
                        verdict = ('ok', None) if eq(got, v) else ('not-equal', repr(got)[:200])
                    cache[res.text] = verdict
                if verdict[0] != 'ok':
                    part.violation(verdict[0], case, {'output': res.text[:400], 'why': verdict[1]})
                if '\n' in res.text:
                    part.nontrivial += 1
    part.c['values'] += 1


def work(item):
    fixtures.register()
    kind = item[0]
    part = core.Part()
    if kind == 'stdlib':
        _, lo, hi, rmode, indents = item
        for v in itertools.islice(all_values(), lo, hi):
            check_value(v, part, rmode, indents)
        if hi > lo:
            part.sample({'value': repr(v)[:120]})
    else:
        # totality of the built-in printers on the C01 trees: no warning, no exception, at 3 widths
        _, n, lo, hi = item
        t = values.Trees()
        for k in range(1, n):
            t.terms(k)
        for v in itertools.islice(t.gen(n), lo, hi):
            for w in (1, 12, 79):
                part.n += 1
                r = oracles.run_pformat(v, width=w)
                if not r.ok():
                    part.violation('builtin-printer-not-total', {'value': oracles.expr_of(v), 'config': {'width': w}},
                                   r.exc or r.warnings[0][-200:])
            part.c['builtin_values'] += 1
    return part


def run(tier, seed):
    fixtures.register()
    res = core.Result(PROPERTY, LEVEL, tier, seed)
    total = sum(1 for _ in all_values())
    rmode, indents = ('some', (4,)) if tier == 'quick' else ('some', (2, 4))
    items = [('stdlib', lo, hi, rmode, indents) for lo, hi in core.chunks(total, 160)]
    for n in (1, 2, 3):
        t = values.Trees()
        cnt = sum(1 for _ in t.gen(n))
        items += [('builtin', n, lo, hi) for lo, hi in core.chunks(cnt, 1 if cnt < 500 else 32)]
    res.add(core.pmap(work, items))
    a = res.agg
    res.coverage = {
        'exhaustive': True,
        'rule': 'every instance of the per-type boundary grids (%d instances) x 5 placements x every width 1..min(L,50)+3 '
                '(+79, 200) x ribbons {1, w/2, w} x indents %s; totality of the built-in printers on all value trees <= 3 '
                'nodes at 3 widths; non-trivial = cases whose output has >= 2 lines' % (total, list(indents)),
        'instances': total, 'builtin_values': a.c['builtin_values'],
        'observations': 'composite and zero Flag values are pseudo-members, not Enum members, and are outside the domain',
    }
    res.assumptions = ['equality per type as in eq() of mc/checks/c07.py (field-wise for exceptions, partial, deque '
                       'maxlen, defaultdict factory, datetime fold/offset/tzname)']
    return res


def replay(case):
    fixtures.register()
    part = core.Part()
    for v in all_values():
        if repr(v)[:200] == case['value'] and type(v).__name__ == case['type']:
            check_value(v, part, 'some', (case['config'].get('indent', 4),))
            break
    mine = [x for x in part.violations if x['case']['placement'] == case['placement'] and x['case']['config'] == case['config']]
    lines = ['value: %s placement: %s config: %s' % (case['value'], case['placement'], case['config'])]
    for x in mine:
        lines.append('violation kind=%s detail=%s' % (x['kind'], x['detail']))
    return not mine, '\n'.join(lines)
