"""C10 - max_seq_len shows exactly the first N elements and says how many were dropped.

Exhaustive over container trees (10 kinds incl. subclasses, lengths 0..4, up to 3 levels, unique
leaves) x N in {1..5, None, 10**6} x widths {20, 79} x sort_dict_keys, plus long families.
Oracle: the evaluated output is typed-equal to the reference truncation (first min(len, N)
elements in iteration order at every level); every '...and K more elements' comment is attributed
(through the AST spans) to exactly the container that was longer than N, with K = len - N, and no
other container has one; with None the output equals the one for N = 10**6, without warning.
"""
import ast
import itertools
import re
import tokenize

from .. import core, oracles, fixtures

PROPERTY = 'C10'
LEVEL = 'exploration'

S = fixtures.SUBCLASSES
KINDS = {
    'list': list, 'tuple': tuple, 'set': set, 'frozenset': frozenset, 'dict': dict,
    'PlainList': S[list][0], 'PlainTuple': S[tuple][0], 'PlainSet': S[set][0],
    'PlainFrozenset': S[frozenset][0], 'PlainDict': S[dict][0],
}
HASHABLE_KINDS = ('tuple', 'frozenset', 'PlainTuple', 'PlainFrozenset')
NOTICE = re.compile(r'\.\.\.and (\d+) more elements')


def mk(kind, items, as_keys=False):
    """Build a container of `kind`; dict kinds take items as values under descending int keys
    (so that sort_dict_keys is observable), or as keys when as_keys."""
    cls = KINDS[kind]
    if issubclass(cls, dict):
        items = list(items)
        if as_keys:
            return cls((x, 9000 - i) for i, x in enumerate(items))
        return cls((9000 - i, x) for i, x in enumerate(items))
    return cls(items)


def leaves(start, n, strs=False):
    return [('s%d' % (start + i)) if strs else start + i for i in range(n)]


def gen_values():
    # level 1
    for kind in KINDS:
        for n in range(0, 6):
            yield mk(kind, leaves(100, n))
            if n:
                yield mk(kind, leaves(100, n, strs=True))
        if issubclass(KINDS[kind], dict):
            yield mk(kind, leaves(100, 3), as_keys=True)
    # level 2: every outer kind x outer length 1..3 x inner kind x every tuple of inner lengths from {0,2,4}
    for k1 in KINDS:
        outer_needs_hashable = issubclass(KINDS[k1], (set, frozenset))
        for k2 in KINDS:
            if outer_needs_hashable and k2 not in HASHABLE_KINDS:
                continue
            for l1 in (1, 2, 3):
                for lens in itertools.product((0, 2, 4), repeat=l1):
                    inner = [mk(k2, leaves(100 * (i + 1), l)) for i, l in enumerate(lens)]
                    if outer_needs_hashable and len(set(inner)) != len(inner):
                        continue
                    yield mk(k1, inner)
                    if issubclass(KINDS[k1], dict) and k2 in HASHABLE_KINDS and len(set(inner)) == len(inner):
                        yield mk(k1, inner, as_keys=True)
    # level 3
    for k1 in KINDS:
        for k2 in KINDS:
            for k3 in KINDS:
                h1 = issubclass(KINDS[k1], (set, frozenset))
                h2 = issubclass(KINDS[k2], (set, frozenset))
                if (h1 and k2 not in HASHABLE_KINDS) or (h2 and k3 not in HASHABLE_KINDS):
                    continue
                if h1 and k3 not in HASHABLE_KINDS:
                    continue
                inner3 = [mk(k3, leaves(10 * (i + 1), 2 + i)) for i in range(3)]
                inner2 = [mk(k2, inner3[:2]), mk(k2, inner3[1:])]
                yield mk(k1, inner2)


def family_values():
    for n in (150, 151, 1000, 1001):
        yield list(range(n))
        yield tuple(range(n))
        yield set(range(n))
        yield {i: i for i in range(n)}
        yield frozenset(range(n))
        yield [list(range(n)), 1]


def is_container(v):
    return isinstance(v, (list, tuple, set, frozenset, dict))


def ordered_items(v, sort):
    """Elements in the order the property prescribes (dict: (key, value) pairs)."""
    if isinstance(v, dict):
        keys = list(v.keys())
        if sort:
            keys = sorted(keys)
        return [(k, v[k]) for k in keys]
    return list(v)


def trunc(v, N, sort):
    if not is_container(v):
        return v
    items = ordered_items(v, sort)
    if N is not None:
        items = items[:N]
    t = type(v)
    if isinstance(v, dict):
        return t((trunc(k, N, sort), trunc(x, N, sort)) for k, x in items)
    return t(trunc(x, N, sort) for x in items)


def literal_node(node):
    """The bracket literal node of a printed container: unwrap Name(...) calls with one argument."""
    while isinstance(node, ast.Call) and len(node.args) == 1 and not node.keywords:
        node = node.args[0]
    return node


def expected_spans(node, orig, N, sort, out):
    """Parallel walk of the output AST and the original value: record for every container its
    literal span and the K it must announce (None = no notice)."""
    if not is_container(orig):
        return
    lit = literal_node(node)
    n = len(orig)
    k = (n - N) if (N is not None and n > N) else None
    out.append(((lit.lineno, lit.col_offset, lit.end_lineno, lit.end_col_offset), k, type(orig).__name__, n))
    items = ordered_items(orig, sort)
    if N is not None:
        items = items[:N]
    if isinstance(lit, ast.Dict):
        for (ko, vo), kn, vn in zip(items, lit.keys, lit.values):
            expected_spans(kn, ko, N, sort, out)
            expected_spans(vn, vo, N, sort, out)
    elif isinstance(lit, (ast.List, ast.Tuple, ast.Set)):
        for o, nn in zip(items, lit.elts):
            expected_spans(nn, o, N, sort, out)
    # Call without args (empty container): nothing below


def notices(text):
    """[(line, col, K)] - consecutive COMMENT lines are joined first (a wrapped notice is one comment)."""
    toks = oracles.tokens(text)
    out = []
    run = None
    for t in toks:
        if t.type == tokenize.COMMENT:
            if run is None:
                run = [t.start[0], t.start[1], t.string[1:].strip(), t.start[0]]
            elif t.start[0] == run[3] + 1:
                run[2] += ' ' + t.string[1:].strip()
                run[3] = t.start[0]
            else:
                out.append(run)
                run = [t.start[0], t.start[1], t.string[1:].strip(), t.start[0]]
        elif t.type not in (tokenize.NL, tokenize.NEWLINE) and run is not None:
            out.append(run)
            run = None
    if run is not None:
        out.append(run)
    res = []
    for line, col, s, _ in out:
        ms = NOTICE.findall(s)
        res.append((line, col, [int(m) for m in ms], s))
    return res


def inside(span, line, col):
    l0, c0, l1, c1 = span
    return (l0, c0) <= (line, col) < (l1, c1)


USER_TEXTS = ('note', 'rest is in {settings}', 'defaults to {}', '}', '{0} %s %(x)d', 'a\\b $HOME')


def judge(v, text, N, sort, ns, user=None):
    try:
        tree = oracles.parse_expr(text)
        got = eval(compile(tree, '<out>', 'eval'), dict(ns))
    except Exception as e:     # noqa
        return 'not-evaluable', '%s: %s' % (type(e).__name__, e)
    exp = trunc(v, N, sort)
    if not oracles.typed_eq(got, exp):
        return 'truncation-differs', {'got': repr(got)[:200], 'expected': repr(exp)[:200]}
    spans = []
    expected_spans(tree.body, v, N, sort, spans)
    found = {i: [] for i in range(len(spans))}
    for line, col, ks, s in notices(text):
        owner = None
        for i, (span, k, tn, n) in enumerate(spans):
            if inside(span, line, col):
                if owner is None or spans[owner][0][:2] <= span[:2]:
                    owner = i          # innermost = latest-starting containing span
        if user is not None and ' '.join(user.split()) in ' '.join(s.split()):
            rest = ' '.join(s.split()).replace(' '.join(user.split()), '', 1).strip()
            if not rest.strip(' .'):
                continue            # the user's own comment, alone
            ks = [int(m) for m in NOTICE.findall(rest)]
        if not ks:
            return 'unexpected-comment', s
        if owner is None:
            return 'notice-outside-any-container', s
        found[owner].extend(ks)
    for i, (span, k, tn, n) in enumerate(spans):
        want = [] if k is None else [k]
        if found[i] != want:
            return 'wrong-notice', {'container': tn, 'len': n, 'N': N, 'expected': want, 'found': found[i]}
    return 'ok', None


def check_value(v, part, Ns, widths, wrap=None, user=None):
    """wrap/user: print wrap(v) - v under a user comment with text `user` - and judge it as v."""
    ns = fixtures.namespace()
    expr = oracles.expr_of(v)
    plain, v_printed = v, (wrap(v) if wrap else v)
    sorts = (False, True) if any(isinstance(x, dict) for x in walk(v)) else (False,)
    for w in widths:
        for sort in sorts:
            big = oracles.run_pformat(v_printed, max_seq_len=10 ** 6, width=w, sort_dict_keys=sort)
            for N in Ns:
                part.n += 1
                cfg = {'max_seq_len': N, 'width': w, 'sort_dict_keys': sort}
                case = {'value': expr if len(expr) < 400 else expr[:100] + '...(len %d)' % len(v), 'config': cfg}
                if user is not None:
                    case['user_comment'] = [wrap.__name__, user]
                r = oracles.run_pformat(v_printed, **cfg)
                if r.exc is not None:
                    part.violation('exception', case, r.exc)
                    continue
                if r.warnings:
                    part.violation('warning', case, r.warnings[:1])
                    continue
                if N is None:
                    if r.text != big.text:
                        part.violation('none-differs-from-large-limit', case, {'none': r.text[:300], 'large': (big.text or '')[:300]})
                    continue
                kind, why = judge(v, r.text, N, sort, ns, user)
                if kind == 'ok' and user is not None and ' '.join(' '.join(x[3] for x in notices(r.text)).split()).count(' '.join(user.split())) != 1:
                    kind, why = 'user-comment-lost', user
                if kind != 'ok':
                    part.violation(kind, case, {'output': r.text[:600], 'why': why})
                if NOTICE.search(r.text):
                    part.nontrivial += 1


def walk(v):
    yield v
    if isinstance(v, dict):
        for k, x in v.items():
            yield from walk(k)
            yield from walk(x)
    elif is_container(v):
        for x in v:
            yield from walk(x)


def commented_cases():
    from prettyprinter import comment, trailing_comment

    def tc_outer(text):
        def trailing_comment_outer(v):
            return trailing_comment(v, text)
        return trailing_comment_outer

    def c_outer(text):
        def comment_outer(v):
            return comment(v, text)
        return comment_outer
    bases = [[1, 2, 3], (1, 2, 3), {1, 2, 3}, {'a': 1, 'b': 2, 'c': 3}, [[1, 2, 3], 4, 5], [1], {}]
    for text in USER_TEXTS:
        for b in bases:
            if b:
                yield b, tc_outer(text), text       # trailing_comment needs a non-empty container to attach to
            yield b, c_outer(text), text


def work(item):
    kind, lo, hi = item
    part = core.Part()
    if kind == 'commented':
        for v, wrap, text in commented_cases():
            check_value(v, part, (1, 2, 3, None, 10 ** 6), (20, 79), wrap=wrap, user=text)
            part.c['commented_values'] += 1
        return part
    if kind == 'trees':
        for v in itertools.islice(gen_values(), lo, hi):
            check_value(v, part, (1, 2, 3, 4, 5, None, 10 ** 6), (20, 79))
            part.c['values'] += 1
            if len(part.samples) < 1 and part.c['values'] > 3:
                part.sample({'value': oracles.expr_of(v)[:200]})
    else:
        for v in itertools.islice(family_values(), lo, hi):
            check_value(v, part, (1000, None, 150, 10 ** 6), (79,))
            part.c['family_values'] += 1
    return part


def run(tier, seed):
    res = core.Result(PROPERTY, LEVEL, tier, seed)
    total = sum(1 for _ in gen_values())
    items = [('trees', lo, hi) for lo, hi in core.chunks(total, 96)]
    nf = sum(1 for _ in family_values())
    items += [('family', lo, hi) for lo, hi in core.chunks(nf, nf)]
    items.append(('commented', 0, 0))
    res.add(core.pmap(work, items))
    res.coverage = {
        'exhaustive': True,
        'rule': 'every container tree of the generator (10 kinds, lengths 0..5, inner lengths from {0,2,4}, 3 levels) '
                'x N in {1..5, None, 10**6} x widths {20,79} x sort_dict_keys; families of length 150/151/1000/1001 '
                'at N in {150, 1000, None, 10**6}; non-trivial = cases whose output carries a truncation notice',
        'values': total, 'family_values': nf,
        'commented': '%d containers under a user comment / trailing comment whose text is one of %r (braces, percent and '
                     'backslash forms included) x N in {1,2,3,None,10**6} x widths {20,79}: same truncation, same notice, '
                     'the user text kept once' % (sum(1 for _ in commented_cases()), list(USER_TEXTS)),
    }
    res.assumptions = ['AST spans (lineno/col_offset) attribute a comment to the innermost enclosing literal']
    return res


def replay(case):
    ns = fixtures.namespace()
    env = dict(ns)
    env.update({c.__name__: c for cs in fixtures.SUBCLASSES.values() for c in cs})
    v = eval(case['value'], env)
    part = core.Part()
    cfg = case['config']
    wrap = user = None
    if case.get('user_comment'):
        import prettyprinter
        fn = getattr(prettyprinter, case['user_comment'][0].replace('_outer', ''))
        user = case['user_comment'][1]
        wrap = lambda x: fn(x, user)     # noqa
        wrap.__name__ = case['user_comment'][0]
    check_value(v, part, (cfg['max_seq_len'],), (cfg['width'],), wrap=wrap, user=user)
    r = oracles.run_pformat(wrap(v) if wrap else v, **cfg)
    lines = ['value: %s' % case['value'], 'config: %s' % cfg, 'output:', str(r.text), 'exc: %s warnings: %s' % (r.exc, r.warnings)]
    mine = [x for x in part.violations if x['case']['config'] == cfg]
    for x in mine:
        lines.append('violation kind=%s detail=%s' % (x['kind'], x['detail']))
    return not mine, '\n'.join(lines)
