"""C01 - printed built-in values evaluate back to an equal value of the same types.

Exhaustive: every value tree up to a node bound over an adversarial leaf alphabet x every width
from 1 to the one-line length + 3 x ribbons x indents x key sorting, plus deterministic deep-chain
families (every wrapper recipe of length <= 2 repeated to depth 5..25 around every leaf).
Oracle: eval of the parenthesised output is typed-equal to the value; no warning, no exception.
"""
import itertools

from .. import core, oracles, values

PROPERTY = 'C01'
LEVEL = 'exploration'
NS = {'float': float, 'frozenset': frozenset, 'set': set}

_TREES = {}


def trees(name):
    if name not in _TREES:
        _TREES[name] = values.Trees() if name == 'full' else values.Trees(values.REDUCED_LEAVES)
    return _TREES[name]


def key_tuples():
    hl = [x for x in values.LEAVES if values.hashable(x)] + [(1,), (0, 'a'), frozenset([1])]
    yield from itertools.permutations(hl, 2)
    small = [0, 1, -1, True, 1.5, -0.0, 'a', '', b'a', None, (1,), 10 ** 20]
    yield from itertools.permutations(small, 3)


def check_one(v, expr, cfg, part, cache):
    """One (value, configuration) case.  cfg = dict of pformat keyword arguments."""
    part.n += 1
    r = oracles.run_pformat(v, **cfg)
    case = {'value': expr, 'config': cfg}
    if r.exc is not None:
        part.violation('exception', case, r.exc)
        return None
    if r.warnings:
        part.violation('warning', case, r.warnings[:2])
        return r.text
    sort = bool(cfg.get('sort_dict_keys'))
    key = (r.text, sort)
    verdict = cache.get(key)
    if verdict is None:
        try:
            got = oracles.eval_in(r.text, NS)
        except Exception as e:     # noqa
            verdict = ('not-evaluable', '%s: %s' % (type(e).__name__, e))
        else:
            verdict = ('ok', None) if oracles.typed_eq(got, v, sort) else ('not-equal', repr(got)[:300])
        cache[key] = verdict
    if verdict[0] != 'ok':
        part.violation(verdict[0], case, {'output': r.text, 'why': verdict[1]})
    if '\n' in r.text:
        part.nontrivial += 1
    return r.text


def configs_for(v, L, policy):
    """policy: 'all' (every ribbon <= width, indents 1,2,4,8) | 'some' | 'few'."""
    sorts = (False, True) if values.has_dict(v) else (False,)
    if policy == 'all':
        indents, rmode = (1, 2, 4, 8), 'all'
    elif policy == 'some':
        indents, rmode = (1, 4), 'some'
    elif policy == 'allindent':
        indents, rmode = (1, 2, 3, 4, 5, 6, 7, 8), 'some'
    else:
        indents, rmode = (4,), 'some'
    for (w, r) in values.width_lattice(L, rmode):
        for ind in indents:
            for s in sorts:
                yield {'width': w, 'ribbon_width': r, 'indent': ind, 'sort_dict_keys': s}


def check_value(v, policy, part):
    expr = oracles.expr_of(v)
    base, L = oracles.one_line(v)
    if base.text is None:
        part.n += 1
        part.violation('exception', {'value': expr, 'config': {'width': 10 ** 6}}, base.exc)
        return
    if L is None:
        L = max(len(x) for x in base.text.split('\n'))
    cache = {}
    outs = set()
    for cfg in configs_for(v, L, policy):
        t = check_one(v, expr, cfg, part, cache)
        if t is not None:
            outs.add(t)
    # ribbon_width > width must behave as ribbon_width == width (checked, not assumed)
    for w in (1, max(1, L // 2), L + 1):
        a = oracles.run_pformat(v, width=w, ribbon_width=w).text
        for r in (w + 1, 200):
            part.n += 1
            b = oracles.run_pformat(v, width=w, ribbon_width=r).text
            if a != b:
                part.violation('ribbon-above-width-differs', {'value': expr, 'config': {'width': w, 'ribbon_width': r}},
                               {'with_ribbon_eq_width': a, 'got': b})
    part.c['distinct_outputs'] += len(outs)
    if len(outs) >= 3 and len(part.samples) < 3:
        part.sample({'value': expr, 'distinct_outputs': len(outs), 'one_line_length': L})


def work(item):
    kind = item[0]
    part = core.Part()
    with core.deadline(3000):
        if kind == 'trees':
            _, tname, n, lo, hi, policy = item
            for v in itertools.islice(trees(tname).gen(n), lo, hi):
                check_value(v, policy, part)
                part.c['values'] += 1
        elif kind == 'dictkeys':
            # every ordered pair of distinct hashable leaves, and every ordered triple over a reduced key set,
            # as dict keys (insertion order vs ascending order when the keys are comparable)
            _, lo, hi = item
            for keys in itertools.islice(key_tuples(), lo, hi):
                d = {}
                for i, k in enumerate(keys):
                    d[k] = i
                if len(d) != len(keys):
                    continue
                for v in (d, [d]):
                    expr = oracles.expr_of(v)
                    cache = {}
                    part.c['family_values'] += 1
                    for w in (1, 30, 79):
                        for srt in (False, True):
                            check_one(v, expr, {'width': w, 'ribbon_width': w, 'indent': 4, 'sort_dict_keys': srt}, part, cache)
        elif kind == 'flat':
            # long flat containers around the printers' "too long to ever fit" shortcut (3n > 150)
            for n in (49, 50, 51, 52, 150, 151, 200):
                for mk, name in ((lambda n: list(range(n)), 'list(range(%d))'), (lambda n: tuple(range(n)), 'tuple(range(%d))'),
                                 (lambda n: set(range(n)), 'set(range(%d))'), (lambda n: {i: i for i in range(n)}, '{i: i for i in range(%d)}'),
                                 (lambda n: frozenset(range(n)), 'frozenset(range(%d))'), (lambda n: [[]] * n, '[[]] * %d'),
                                 (lambda n: ['', -0.0] * (n // 2), "['', -0.0] * (%d // 2)"),
                                 # equal values of different types / signs side by side in a long sequence
                                 (lambda n: [1] * n + [True, 1.0, 0, False, 0.0, -0.0], '[1] * %d + [True, 1.0, 0, False, 0.0, -0.0]'),
                                 (lambda n: [0.0] * n + [-0.0, 0, False], '[0.0] * %d + [-0.0, 0, False]'),
                                 (lambda n: tuple([(1, 2)] * n + [(True, 2.0), (1.0, 2)]), 'tuple([(1, 2)] * %d + [(True, 2.0), (1.0, 2)])'),
                                 (lambda n: ['a', b'a', 1, True, 1.0, (1,), (True,), 0, False, -0.0, 0.0, None] * (n // 6),
                                  "['a', b'a', 1, True, 1.0, (1,), (True,), 0, False, -0.0, 0.0, None] * (%d // 6)")):
                    v = mk(n)
                    cache = {}
                    part.c['family_values'] += 1
                    for w in (1, 40, 79, 149, 150, 151, 152, 153, 160, 200, 300, 1000):
                        for r in values.ribbons(w, 'some'):
                            check_one(v, name % n, {'width': w, 'ribbon_width': r, 'indent': 4, 'sort_dict_keys': False}, part, cache)
        else:
            _, recipe_list, depths, leaves, widths, indents = item
            for recipe in recipe_list:
                for depth in depths:
                    for li in leaves:
                        v = values.chain(recipe, depth, values.LEAVES[li])
                        expr = 'chain(%r, %d, %s)' % (list(recipe), depth, oracles.expr_of(values.LEAVES[li]))
                        cache = {}
                        part.c['family_values'] += 1
                        for w in widths:
                            for r in values.ribbons(w, 'some'):
                                for ind in indents:
                                    for s in (False, True):
                                        check_one(v, expr, {'width': w, 'ribbon_width': r, 'indent': ind,
                                                            'sort_dict_keys': s}, part, cache)
    return part


def plan(tier, seed):
    items, desc = [], []
    full = trees('full')

    def add(tname, n, policy, only=None):
        t = trees(tname)
        for k in range(1, n):
            t.terms(k)
        total = sum(1 for _ in t.gen(n))
        if only is None:
            for lo, hi in core.chunks(total, 1 if total < 200 else 160):
                items.append(('trees', tname, n, lo, hi, policy))
            desc.append('%s leaves, trees with %d nodes: %d values, config policy %s' % (tname, n, total, policy))
        else:
            width = only
            lo = (seed % max(1, total // width)) * width
            for a, b in core.chunks(width, 32):
                items.append(('trees', tname, n, lo + a, lo + b, policy))
            desc.append('%s leaves, trees with %d nodes: slice [%d, %d) of %d chosen by seed, policy %s' % (
                tname, n, lo, lo + width, total, policy))

    if tier == 'quick':
        add('full', 1, 'all')
        add('full', 2, 'all')
        add('full', 3, 'some')
        add('full', 4, 'few', only=6000)
        rec = list(values.recipes(2))
        leaves = [values.LEAVES.index(x) for x in ('', b'', 'a b', 0, None)] + [9, 14]
        for chunk in core.chunks(len(rec), 28):
            items.append(('family', rec[chunk[0]:chunk[1]], (5, 20), leaves, (1, 10, 40, 79), (1, 4)))
        desc.append('deep chains: %d recipes x depths 5,20 x %d leaves x widths 1,10,40,79' % (len(rec), len(leaves)))
    else:
        add('full', 1, 'all')
        add('full', 2, 'all')
        add('full', 3, 'all')
        add('full', 4, 'few')
        add('reduced', 5, 'few', only=None)
        rec = list(values.recipes(2))
        leaves = list(range(len(values.LEAVES)))
        for chunk in core.chunks(len(rec), 56):
            items.append(('family', rec[chunk[0]:chunk[1]], (5, 10, 20, 25), leaves, (1, 2, 5, 10, 20, 40, 79, 200), (1, 4, 8)))
        desc.append('deep chains: %d recipes x depths 5,10,20,25 x %d leaves x 8 widths' % (len(rec), len(leaves)))
    nk = sum(1 for _ in key_tuples())
    items += [('dictkeys', lo, hi) for lo, hi in core.chunks(nk, 32)]
    desc.append('dicts with every ordered pair of distinct hashable leaves / every ordered triple over 12 keys as keys (%d key tuples) x sort_dict_keys x 3 widths' % nk)
    items.append(('flat',))
    desc.append('long flat containers with 49..52 and 150 elements at 12 widths (the 3n > 150 shortcut)')
    return items, desc


def run(tier, seed):
    res = core.Result(PROPERTY, LEVEL, tier, seed)
    items, desc = plan(tier, seed)
    res.add(core.pmap(work, items))
    a = res.agg
    res.coverage = {
        'exhaustive': True,
        'rule': 'every value tree of the stated sizes x every width in [1, one-line length+3] (+79, 200) x '
                'ribbons x indents x sort_dict_keys; deep-chain families enumerated completely; each '
                '(value, configuration) pair is enumerated once; non-trivial = pairs whose output has >= 2 lines',
        'spaces': desc, 'values': a.c['values'], 'family_values': a.c['family_values'],
        'distinct_outputs': a.c['distinct_outputs'],
    }
    res.assumptions = ['CPython eval/ast define "valid expression"', 'typed equality of mc/oracles.py']
    return res


def replay(case):
    ns = dict(NS, chain=lambda rec, d, leaf: values.chain(tuple(rec), d, leaf), range=range)
    v = eval(case['value'], ns)
    part = core.Part()
    check_one(v, case['value'], case['config'], part, {})
    r = oracles.run_pformat(v, **case['config'])
    lines = ['value: %s' % case['value'], 'config: %s' % case['config'], 'output:', str(r.text), 'exc: %s warnings: %s' % (r.exc, r.warnings)]
    for x in part.violations:
        lines.append('violation kind=%s detail=%s' % (x['kind'], x['detail']))
    return not part.violations, '\n'.join(lines)
