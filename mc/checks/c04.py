"""C04 - the layout engine only ever picks one of the layouts a document denotes.

Exhaustive: every document term up to a node bound over the public combinator algebra x every
integer (width, ribbon) pair up to the document's flat length + 2 x {layout_smart, layout_fast}.
Oracle: membership of the observed SDoc stream in the term's layout set (mc.docalg), plus the
renderer relation (only trailing spaces trimmed).
"""
import itertools

from .. import core, docalg

PROPERTY = 'C04'
LEVEL = 'model_checking'
FINDING_HARDLINE = 'C04/hardline-in-flat-group'

ALPHABETS = {'full': docalg.full_alphabet, 'reduced': docalg.reduced_alphabet}
_ALPHA = {}


def alphabet(name):
    if name not in _ALPHA:
        _ALPHA[name] = ALPHABETS[name]()
    return _ALPHA[name]


def strategies():
    from prettyprinter.layout import layout_smart, layout_fast
    return (('smart', layout_smart), ('fast', layout_fast))


def renderer_ok(tokens, rendered):
    """default_render_to_str may differ from the raw text only by trailing spaces per line."""
    raw = docalg.tokens_text(tokens).split('\n')
    got = rendered.split('\n')
    if len(raw) != len(got):
        return False
    for a, b in zip(raw, got):
        if not a.startswith(b) or a[len(b):].strip(' ') != '':
            return False
    return True


def classify(ls, tokens):
    """-> 'strict' | 'lenient' | 'forced-break-ignored' | 'not-a-member'"""
    rs = ls.get(tokens)
    if rs is None:
        return 'not-a-member'
    if any(all(g.strict_ok() for g in r.groups) for r in rs):
        return 'strict'
    if any(all(g.lenient_ok() for g in r.groups) for r in rs):
        return 'lenient'
    return 'forced-break-ignored'


def check_case(term, doc, ls, width, frac, sname, layout, part, fresh=False):
    from prettyprinter.render import default_render_to_str
    case = {'term': term, 'show': docalg.show(term), 'width': width, 'frac': frac, 'strategy': sname}
    part.n += 1
    try:
        sdocs = list(layout(doc, width=width, ribbon_frac=frac))
        tokens = docalg.observe(sdocs)
    except Exception as e:     # noqa
        part.violation('layout-exception', case, '%s: %s' % (type(e).__name__, e))
        return None
    part.c['tokens'] += len(tokens)
    verdict = classify(ls, tokens)
    if verdict == 'lenient':
        part.violation('hardline-in-flat-group', case,
                       {'observed': docalg.tokens_text(tokens)}, finding=FINDING_HARDLINE)
    elif verdict != 'strict':
        part.violation(verdict, case, {'observed_tokens': repr(tokens),
                                       'layout_set_size': len(ls),
                                       'members': [docalg.tokens_text(k) for k in list(ls)[:6]]})
    try:
        # a render with other line-break strings first: the default render afterwards must not remember them
        other = default_render_to_str(list(sdocs), newline='\r\n', separator='\t')
        rendered = default_render_to_str(sdocs)
    except Exception as e:     # noqa
        part.violation('render-exception', case, '%s: %s' % (type(e).__name__, e))
        return tokens
    if other.count('\r\n') != sum(1 for t in tokens if isinstance(t, int)) or '\n' in other.replace('\r\n', ''):
        part.violation('renderer-ignores-newline-argument', case, {'rendered': other})
    if not renderer_ok(tokens, rendered):
        part.violation('renderer-changes-text', case, {'raw': docalg.tokens_text(tokens), 'rendered': rendered})
    return tokens


def check_term(term, part):
    try:
        doc = docalg.build(term)
    except Exception as e:     # noqa
        part.n += 1
        part.violation('build-exception', {'term': term, 'show': docalg.show(term)},
                       '%s: %s' % (type(e).__name__, e))
        return
    ls = docalg.layout_set(term)
    part.c['reference_layouts'] += len(ls)
    seen = set()
    for (width, frac, _r) in docalg.config_lattice(term):
        for sname, layout in strategies():
            tokens = check_case(term, doc, ls, width, frac, sname, layout, part)
            if tokens is not None:
                seen.add(tokens)
    part.c['observed_layouts'] += len(seen)
    if len(seen) >= 2:
        part.nontrivial += 1
        if part.c['sampled'] < 2 and len(seen) >= 3:
            part.c['sampled'] += 1
            part.sample({'term': docalg.show(term), 'distinct_observed_layouts': len(seen),
                         'reference_layout_set': len(ls),
                         'layouts': sorted(docalg.tokens_text(t) for t in seen)[:4]})


def contexts():
    """Larger documents composed from small ones (they replace the quantifier's "random larger ones"):
    every context below filled with every pair (X, Y) of small terms."""
    T = lambda s: ['t', s]     # noqa
    return [
        lambda X, Y: ['group', ['cat', [X, ['hardline'], Y]]],
        lambda X, Y: ['group', ['cat', [T('a'), ['hardline'], ['group', ['cat', [T('b'), ['line'], Y]]], X]]],
        lambda X, Y: ['group', ['cat', [X, ['line'], ['group', ['cat', [T('b'), ['line'], Y]]]]]],
        lambda X, Y: ['fill', [X, ['line'], ['group', ['cat', [T('b'), ['line'], Y]]], ['line'], T('c')]],
        lambda X, Y: ['cat', [['group', ['cat', [X, ['line'], T('bb')]]], ['nest', 2, ['cat', [['line'], Y]]]]],
        lambda X, Y: ['group', ['nest', 2, ['cat', [X, ['softline'], ['fc', Y, T('flat')], ['line'], T('z')]]]],
        lambda X, Y: ['ann', 'other', ['group', ['cat', [['align', ['cat', [X, ['line'], Y]]], ['line'], T('d')]]]],
    ]


def work(item):
    if item[0] == 'contexts':
        _, ci, nx, ny, lo, hi = item
        part = core.Part()
        a = alphabet('full')
        ctx = contexts()[ci]
        xs = [t for k in range(1, nx + 1) for t in a.terms(k)]
        ys = [t for k in range(1, ny + 1) for t in a.terms(k)]
        with core.deadline(3600):
            for X, Y in itertools.islice(itertools.product(xs, ys), lo, hi):
                check_term(ctx(X, Y), part)
                part.c['terms'] += 1
        return part
    if item[0] == 'wrap':
        _, n, lo, hi = item
        part = core.Part()
        a = alphabet('full')
        with core.deadline(3600):
            for term in itertools.islice(a.gen(n), lo, hi):
                for kind in ('rctx', 'ctx'):
                    for v in docalg.wrap_variants(term, kind):
                        check_term(v, part)
                        part.c['contextual_terms'] += 1
        return part
    aname, n, lo, hi = item
    part = core.Part()
    a = alphabet(aname)
    with core.deadline(3600):
        for term in itertools.islice(a.gen(n), lo, hi):
            check_term(term, part)
            part.c['terms'] += 1
    return part


def plan(tier, seed):
    """-> (items, description)."""
    items, desc = [], []
    full = alphabet('full')
    kfull = 5 if tier == 'quick' else 6
    for n in range(1, kfull):
        full.terms(n)           # memoise before forking
    for n in range(1, kfull + 1):
        total = full.count(n) if n < kfull else sum(1 for _ in full.gen(n))
        for lo, hi in core.chunks(total, 1 if total < 2000 else 96):
            items.append(('full', n, lo, hi))
        desc.append('full algebra size %d: %d terms' % (n, total))
    nx, ny = (1, 3) if tier == 'quick' else (2, 3)
    nxs = sum(full.count(k) for k in range(1, nx + 1))
    nys = sum(full.count(k) for k in range(1, ny + 1))
    for ci in range(len(contexts())):
        for lo, hi in core.chunks(nxs * nys, 12 if tier == 'quick' else 64):
            items.append(('contexts', ci, nx, ny, lo, hi))
    desc.append('%d contexts of 6-11 nodes x every pair of terms with <= %d and <= %d nodes (%d composed documents)' % (len(contexts()), nx, ny, len(contexts()) * nxs * nys))
    kw = 3 if tier == 'quick' else 4
    nw = 0
    for n in range(1, kw + 1):
        total = full.count(n)
        nw += total
        for lo, hi in core.chunks(total, 1 if total < 200 else 64):
            items.append(('wrap', n, lo, hi))
    desc.append('contextual: every full-algebra term of size <= %d (%d terms) with each single subterm position '
                'in turn wrapped in a contextual returning it - once plainly, once with a function that first '
                'runs complete unrelated layouts (re-entrancy)' % (kw, nw))
    if tier == 'quick':
        # seed-rotated contiguous slice of the next size (a subset of the thorough tier)
        full.terms(5)
        total = sum(1 for _ in full.gen(6))
        width = 3000
        nslices = total // width
        lo = (seed % nslices) * width
        items.append(('full', 6, lo, lo + width))
        desc.append('full algebra size 6: slice [%d, %d) chosen by seed' % (lo, lo + width))
    else:
        red = alphabet('reduced')
        for n in range(1, 7):
            red.terms(n)
        for n in (7,):
            total = sum(1 for _ in red.gen(n))
            for lo, hi in core.chunks(total, 128):
                items.append(('reduced', n, lo, hi))
            desc.append('reduced algebra size %d: %d terms' % (n, total))
    return items, desc


def run(tier, seed):
    res = core.Result(PROPERTY, LEVEL, tier, seed)
    items, desc = plan(tier, seed)
    res.add(core.pmap(work, items))
    a = res.agg
    res.coverage = {
        'states': a.n,
        'transitions': a.c['tokens'],
        'traces_validated_against_impl': a.n,
        'exhaustive': True,
        'rule': 'every document term of the stated sizes x every (width, ribbon) pair with '
                '1<=width<=flat length+2, 0<=ribbon<=width, plus width 80 x {smart, fast}; '
                'a state is one (term, width, ribbon, strategy) execution of the real engine, a '
                'transition is one SDoc token matched against the reference layout set; '
                'non-trivial = terms for which >= 2 distinct layouts were observed',
        'spaces': desc,
        'terms': a.c['terms'], 'contextual_terms': a.c['contextual_terms'],
        'reference_layouts_enumerated': a.c['reference_layouts'],
        'distinct_observed_layouts': a.c['observed_layouts'],
    }
    res.assumptions = [
        'reference semantics of mc/docalg.py (independent flat/broken assignment per group and fill item)',
        'documents are built only through prettyprinter.doc public functions',
        'every explored trace is an execution of the real layout engine (no separate model to validate)',
    ]
    return res


def replay(case):
    part = core.Part()
    term = case['term']
    try:
        doc = docalg.build(term)
    except Exception as e:     # noqa
        return False, 'build(%s) raised %s: %s' % (docalg.show(term), type(e).__name__, e)
    ls = docalg.layout_set(term)
    if 'width' not in case:
        check_term(term, part)
    else:
        layout = dict(strategies())[case['strategy']]
        tokens = check_case(term, doc, ls, case['width'], case['frac'], case['strategy'], layout, part)
    lines = ['term: ' + docalg.show(term), 'config: %s' % {k: case.get(k) for k in ('width', 'frac', 'strategy')}]
    if 'width' in case and tokens is not None:
        lines.append('observed: %r' % docalg.tokens_text(tokens))
    lines.append('reference layout set: %r' % sorted(docalg.tokens_text(k) for k in ls)[:12])
    for v in part.violations:
        lines.append('violation kind=%s finding=%s detail=%s' % (v['kind'], v.get('finding'), v.get('detail')))
    bad = [v for v in part.violations]
    return not bad, '\n'.join(lines)
