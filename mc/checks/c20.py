"""C20 - concurrent printing from several threads is safe.

Stateless model checking of the real code: 2-3 real threads, each performing 1-2 pformat calls,
run under the deterministic scheduler of mc/sched.py, which can switch threads at every line
boundary inside the package.  All schedules with at most B preemptions are enumerated
(iterative context bounding, depth-first over choice prefixes).  Scenarios force collisions: the
first print of a class registered by name from several threads at once, its subclass (promotion
through the MRO), a directly registered class, an unregistered object, a struct sequence (shared
field-name cache) and ordinary containers (shared layout constants).
Oracle: every thread returns exactly the text of the sequential run, none raises, and the
registries end in the sequential end state.
"""
import os
import time
import warnings

from .. import core, registry, sched, oracles, fixtures

PROPERTY = 'C20'
LEVEL = 'model_checking'


def pkgdir():
    import prettyprinter
    return os.path.dirname(os.path.abspath(prettyprinter.__file__))


class Direct:
    pass


_reg = []


def ensure_registered():
    if _reg:
        return
    from prettyprinter import register_pretty

    @register_pretty(Direct)
    def p_direct(v, ctx):
        return 'Direct!'
    _reg.append(1)
    registry.get().snap()        # the Direct printer belongs to the baseline snapshot
    sched.cooperate_locks(pkgdir())


def scenario(name):
    """-> function that (after a registry restore) creates fresh classes and returns the list of
    thread bodies; each body returns a tuple of texts."""
    from prettyprinter import pformat
    R = registry.get()

    def fresh():
        X = type('X', (), {'__module__': 'mc_c20_dyn'})
        Y = type('Y', (X,), {'__module__': 'mc_c20_dyn'})
        from prettyprinter import register_pretty
        register_pretty('mc_c20_dyn.X')(lambda v, ctx: 'X!')      # public API: a printer registered by name, still pending
        return X, Y

    def norm(s):
        return oracles.normalize_ids(s)

    def mk():
        X, Y = fresh()
        import sys as _sys
        st = _sys.thread_info          # a struct sequence with three fields
        if name == 'name-vs-subclass':
            return [lambda: (pformat(X()),), lambda: (pformat(Y()),)]
        if name == 'name-vs-same':
            return [lambda: (pformat(X()),), lambda: (pformat(X()),)]
        if name == 'name-twice-vs-subclass':
            return [lambda: (pformat(X()), pformat(X())), lambda: (pformat(Y()),)]
        if name == 'nested-vs-direct':
            return [lambda: (pformat([X()], width=1),), lambda: (pformat(Direct()), pformat(Y()))]
        if name == 'structseq':
            return [lambda: (pformat(st, width=40),), lambda: (pformat(st, width=40),)]
        if name == 'unregistered-vs-containers':
            return [lambda: (norm(pformat(object())), pformat({'a': 1}, width=4)),
                    lambda: (pformat([1], width=1),)]
        if name == 'long-strings':
            # two different strings that have to be split (any state kept between the steps of splitting is shared)
            return [lambda: (pformat('alpha ' * 4, width=12),), lambda: (pformat(b'omega ' * 4, width=12),)]
        if name == 'stdlib-lazy':
            import uuid
            u, e = uuid.UUID(int=1), fixtures.Color.RED
            return [lambda: (pformat(u), pformat(e)), lambda: (pformat(e), pformat([u]))]
        if name == 'three-threads':
            return [lambda: (pformat(X()),), lambda: (pformat(Y()),), lambda: (pformat(X()),)]
        if name == 'three-threads-mixed':
            return [lambda: (pformat(Y()),), lambda: (pformat([X()]),), lambda: (pformat(Direct()), pformat(X()))]
        raise ValueError(name)
    return mk


SCENARIOS_2 = ['name-vs-subclass', 'name-vs-same', 'name-twice-vs-subclass', 'nested-vs-direct', 'structseq',
               'unregistered-vs-containers', 'stdlib-lazy', 'long-strings']
SCENARIOS_3 = ['three-threads', 'three-threads-mixed']


def end_state():
    R = registry.get()
    keys = sorted(getattr(k, '__module__', '?') + '.' + getattr(k, '__qualname__', repr(k)) for k in R.registry if k not in R.base_registry)
    deferred = sorted(k for k in R.deferred() if k not in R.base_deferred or k == 'mc_c20_dyn.X')
    cnt = R.structseq_cache_names()
    return (tuple(keys), tuple(deferred), tuple(x.rsplit('.', 1)[-1] for x in cnt) if cnt is not None else None)


def sequential(name):
    """Results and end state of running the thread bodies one after another (every order)."""
    import itertools
    R = registry.get()
    mk = scenario(name)
    outs = set()
    n = len(mk())
    for order in itertools.permutations(range(n)):
        R.restore()
        bodies = mk()
        res = [None] * n
        for i in order:
            res[i] = ('ok', bodies[i]())
        outs.add((tuple(res), end_state()))
    R.restore()
    return outs


def run_one_factory(name, visible, opcodes=False):
    R = registry.get()
    mk = scenario(name)
    pkg = pkgdir()

    def run_one(prefix):
        R.restore()
        bodies = mk()
        s = sched.Sched(bodies, prefix, pkg, visible, opcodes)
        results, trace = s.run()
        return (results, end_state()), trace
    return run_one


def rle(seq):
    out = []
    for x in seq:
        if out and out[-1][0] == x:
            out[-1][1] += 1
        else:
            out.append([x, 1])
    return out


def unrle(pairs):
    return [x for x, n in pairs for _ in range(n)]


def judge(part, outcomes, name, prefix, res_state, trace, seq, bound, visible_only):
    results, state = res_state
    part.n += 1
    part.c['scheduling_points'] += len(trace)
    key = (tuple(results), state)
    outcomes.add(repr(key))
    if key not in seq:
        kind = 'thread-raised' if any(r is None or r[0] != 'ok' for r in results) else (
            'result-differs-from-sequential' if tuple(results) not in {s[0] for s in seq} else 'end-state-differs')
        part.violation(kind, {'scenario': name, 'schedule_rle': rle(prefix), 'bound': bound, 'visible_only': visible_only},
                       {'results': repr(results)[:400], 'end_state': repr(state)[:300],
                        'sequential': repr(sorted(seq, key=repr)[0])[:400]})
    if sched.preemptions(trace, len(trace)) > 0:
        part.nontrivial += 1


def explore_chunk(item):
    """Worker: DFS below a list of prefixes for one scenario."""
    name, prefixes, bound, visible_only, seq = item
    ensure_registered()
    warnings.simplefilter('ignore')
    part = core.Part()
    visible = sched.visible_functions(pkgdir()) if visible_only else None
    run_one = run_one_factory(name, visible, visible_only == 'opcodes')
    if visible_only == 'opcodes':
        run_one([])
        run_one([])
    outcomes = set()

    def on_exec(prefix, res_state, trace):
        judge(part, outcomes, name, prefix, res_state, trace, seq, bound, visible_only)
    try:
        sched.explore_from(prefixes, run_one, bound, visible_only, on_exec)
    except sched.ScheduleError as e:
        part.violation('scheduler-error', {'scenario': name, 'bound': bound}, str(e))
    registry.get().restore()
    out = part.pack()
    out['outcomes'] = sorted(outcomes)
    return out


def explore_scenario(res, name, bound, visible_only):
    """Root execution in the master, first-level alternatives distributed over the workers."""
    ensure_registered()
    seq = sequential(name)
    if len({s[0] for s in seq}) != 1:
        res.agg.violation('sequential-orders-disagree', {'scenario': name}, repr(sorted(seq, key=repr))[:600])
    visible = sched.visible_functions(pkgdir()) if visible_only else None
    run_one = run_one_factory(name, visible, visible_only == 'opcodes')
    if visible_only == 'opcodes':
        run_one([])         # per-opcode events are delivered only once the code objects are instrumented:
        run_one([])         # warm up so that the numbering of scheduling points is stable
    # determinism self-test: the empty schedule replayed twice gives identical observations and traces
    a = run_one([])
    b = run_one([])
    if repr(a) != repr(b):
        res.agg.violation('harness-nondeterministic', {'scenario': name}, {'first': repr(a)[:300], 'second': repr(b)[:300]})
    root = core.Part()
    outcomes = set()
    # The master expands the deviations that cost no preemption (which thread starts, which one
    # continues after another finished): their subtrees are as large as the root's.  Every
    # deviation that costs a preemption becomes the root of a distributed subtree.
    points = len(a[1])
    master_stack, first = [[]], []
    while master_stack:
        prefix = master_stack.pop()
        res_state, trace = run_one(prefix)
        judge(root, outcomes, name, prefix, res_state, trace, seq, bound, visible_only)
        for alt in sched.alternatives(trace, len(prefix), bound, visible_only):
            if not trace[len(alt) - 1][2]:
                master_stack.append(alt)
            else:
                first.append(alt)
    res.add([root])
    trace = a[1]
    k = core.NPROC * 4
    groups = [first[i::k] for i in range(k)]
    outs = core.pmap(explore_chunk, [(name, g, bound, visible_only, seq) for g in groups if g])
    for o in outs:
        outcomes.update(o.get('outcomes', []))
    res.add(outs)
    registry.get().restore()
    return len(trace), len(outcomes)


def run(tier, seed):
    ensure_registered()
    warnings.simplefilter('ignore')
    res = core.Result(PROPERTY, LEVEL, tier, seed)
    A, V, O = False, True, 'opcodes'       # preempt at every package line / only at visible lines / also between bytecodes of visible functions
    if tier == 'quick':
        plan = [('name-vs-subclass', 1, A), ('name-vs-subclass', 2, V), ('name-vs-subclass', 1, O),
                ('name-vs-same', 1, A), ('name-vs-same', 1, O),
                ('name-twice-vs-subclass', 1, A),
                ('nested-vs-direct', 1, A),
                ('unregistered-vs-containers', 1, A),
                ('structseq', 1, V),
                ('stdlib-lazy', 1, A),
                ('long-strings', 1, A),
                ('three-threads', 1, A), ('three-threads-mixed', 1, V)]
    else:
        plan = [('name-vs-subclass', 2, A), ('name-vs-subclass', 2, O),
                ('name-vs-same', 2, A), ('name-vs-same', 2, O), ('name-vs-same', 3, V),
                ('name-twice-vs-subclass', 1, A), ('name-twice-vs-subclass', 2, V),
                ('nested-vs-direct', 1, A), ('nested-vs-direct', 2, V),
                ('unregistered-vs-containers', 1, A), ('unregistered-vs-containers', 2, V),
                ('structseq', 1, A),
                ('stdlib-lazy', 1, A), ('stdlib-lazy', 1, O),
                ('long-strings', 1, A), ('long-strings', 2, V),
                ('three-threads', 1, A), ('three-threads', 2, V),
                ('three-threads-mixed', 1, A)]
    desc = []
    for (s, bound, vis) in plan:
        before = res.agg.n
        t0 = time.time()
        points, nout = explore_scenario(res, s, bound, vis)
        desc.append({'scenario': s, 'preemption_bound': bound,
                     'preempt_at': 'every bytecode of visible functions + visible lines' if vis == 'opcodes' else 'visible lines' if vis else 'every package line',
                     'executions': res.agg.n - before, 'wall_s': round(time.time() - t0, 1), 'scheduling_points_in_default_run': points,
                     'distinct_outcomes': nout})
    a = res.agg
    res.coverage = {
        'states': a.n, 'transitions': a.c['scheduling_points'], 'traces_validated_against_impl': a.n,
        'exhaustive': True,
        'rule': 'state = one complete schedule (execution) of the real threads; transition = one scheduling point '
                '(package line boundary); all schedules within the preemption bound are enumerated per scenario; '
                'non-trivial = executions with at least one preemption',
        'scenarios': desc,
        'visible_functions': sorted('%s:%s' % (os.path.basename(f), n) for f, n in sched.visible_functions(pkgdir())),
        'samples': [{'scenario': d['scenario'], 'bound': d['preemption_bound'], 'executions': d['executions']} for d in desc[:3]],
    }
    res.assumptions = ['switches happen only at line boundaries inside the package; functools / warnings / C code are '
                       'atomic for this scheduler; free-threaded builds and cpprint are outside the property',
                       'every explored schedule is an execution of the real code (no separate model)']
    return res


def replay(case):
    ensure_registered()
    warnings.simplefilter('ignore')
    name = case['scenario']
    seq = sequential(name)
    visible = sched.visible_functions(pkgdir()) if case.get('visible_only') else None
    run_one = run_one_factory(name, visible, case.get('visible_only') == 'opcodes')
    schedule = unrle(case['schedule_rle']) if 'schedule_rle' in case else case['schedule']
    (results, state), trace = run_one(schedule)
    (results2, state2), _ = run_one(schedule)
    registry.get().restore()
    ok = (tuple(results), state) in seq
    lines = ['scenario: %s schedule (run-length encoded): %s' % (name, rle(schedule)), 'results: %r' % (results,), 'end state: %r' % (state,),
             'sequential: %r' % (sorted(seq, key=repr)[0],), 'replayed twice with identical observations: %s' % (repr(results) == repr(results2))]
    return ok, '\n'.join(lines)
