"""C15 - printer dispatch follows the class hierarchy for every registration history.

Explicit-state breadth-first search over operation histories on the *real* registries.
Alphabet (57 operations) on the lattice G; P(G); C(P); Q; M(P, Q); D(C):
  reg_class(X), reg_name(X), reg_pred(p), print(X()), is_registered(X, flags) for the 6 legal
  flag combinations (the illegal one must raise ValueError).
A state is the pair (canonical abstraction of the real registries, reference-model state) with
registration tags renamed in order of appearance; successors are produced by restoring the
baseline snapshot, replaying the history and applying one more operation.  On every transition
the returned value is compared with the reference model (nearest class in the MRO with a
registration of either kind, latest wins; else first accepting predicate; else repr).  State
merging is validated differentially: for every state reached by a second history the complete
vector of outgoing observations is recomputed from that history and must equal the first one.
"""
import collections
import warnings

from .. import core, registry

PROPERTY = 'C15'
LEVEL = 'model_checking'


class G:
    flag = False

    def __init__(self, flag=False):
        self.flag = flag


class P(G):
    pass


class C(P):
    pass


class Q:
    flag = False

    def __init__(self, flag=False):
        self.flag = flag


class M(P, Q):
    pass


class D(C):
    pass


CLS = [G, P, C, Q, M, D]
CNAME = {c: c.__name__ for c in CLS}
BYNAME = {c.__name__: c for c in CLS}
BYNAME['object'] = object        # a printer for object itself is the nearest class of last resort
DEFKEY = {c: c.__module__ + '.' + c.__qualname__ for c in CLS + [object]}
PREDS = [('isG', lambda v: isinstance(v, G)), ('isQ', lambda v: isinstance(v, Q)), ('always', lambda v: True),
         ('flagged', lambda v: bool(getattr(v, 'flag', False)))]       # depends on the instance, not on its class
FLAGS = [(cs, cd, rd) for cs in (False, True) for (cd, rd) in ((True, True), (True, False), (False, False))]

OPS = ([('rc', c.__name__) for c in CLS] + [('rn', c.__name__) for c in CLS] + [('rc', 'object'), ('rn', 'object')] +
       [('rp', i) for i in range(len(PREDS))] + [('pr', c.__name__) for c in CLS] +
       [('prf', c.__name__) for c in CLS] + [('pc', c.__name__) for c in CLS] + [('pl', c.__name__) for c in CLS] +
       [('q', c.__name__, cs, cd, rd) for c in CLS for (cs, cd, rd) in FLAGS])


def mk_printer(tag):
    def printer(value, ctx):
        return 'TAG%d' % tag
    printer.tag = tag
    return printer


# ----------------------------------------------------------------------------- real system

def impl_apply(op, tag):
    """Apply one operation to the real package; -> observation (str / bool / None)."""
    from prettyprinter import pformat, register_pretty, is_registered
    k = op[0]
    if k == 'rc':
        register_pretty(BYNAME[op[1]])(mk_printer(tag))
        return None
    if k == 'rn':
        register_pretty(DEFKEY[BYNAME[op[1]]])(mk_printer(tag))
        return None
    if k == 'rp':
        register_pretty(predicate=PREDS[op[1]][1])(mk_printer(tag))
        return None
    if k in ('pr', 'prf', 'pc', 'pl'):
        # pr: plain instance; prf: instance with flag=True; pc: instance wrapped in comment();
        # pl: instance inside a list
        from prettyprinter import comment
        inst = BYNAME[op[1]](flag=(k == 'prf'))
        value = comment(inst, 'note') if k == 'pc' else [inst] if k == 'pl' else inst
        with warnings.catch_warnings(record=True) as ws:
            warnings.simplefilter('always')
            try:
                out = pformat(value)
            except Exception as e:     # noqa
                return 'EXC:' + type(e).__name__
        if ws:
            return 'WARN:' + str(ws[0].message)[:60]
        if k == 'pc':
            out = out.split('  #')[0] if out.endswith('# note') else 'MALFORMED:' + out[:40]
        if k == 'pl':
            out = out[1:-1] if out.startswith('[') and out.endswith(']') else 'MALFORMED:' + out[:40]
        return out if out.startswith('TAG') else ('REPR' if out.startswith('<') else 'MALFORMED:' + out[:40])
    if k == 'q':
        _, name, cs, cd, rd = op
        try:
            return bool(is_registered(BYNAME[name], check_superclasses=cs, check_deferred=cd, register_deferred=rd))
        except Exception as e:     # noqa
            return 'EXC:' + type(e).__name__
    raise ValueError(op)


def impl_abstract(R):
    """Canonical read-back of the real registries, restricted to the lattice."""
    pp = R.pp
    direct, deferred = {}, {}
    for c in CLS + [object]:
        f = R.registry.get(c)
        if f is not None and (c is not object or f is not R.base_registry.get(object)):
            fn = f.args[0] if hasattr(f, 'args') and f.args else f
            direct[c.__name__] = getattr(fn, 'tag', '?')
        g = R.deferred().get(DEFKEY[c])
        if g is not None:
            deferred[c.__name__] = getattr(g, 'tag', '?')
    preds = []
    for (pred, fn) in R.predicates()[len(R.base_pred):]:
        idx = [i for i, (_, p) in enumerate(PREDS) if p is pred]
        preds.append((idx[0] if idx else '?', getattr(fn, 'tag', '?')))
    return direct, deferred, preds


# ----------------------------------------------------------------------------- reference model

class Model:
    def __init__(self):
        self.cls = {}        # class name -> (tag, latest registration was direct?)
        self.live = set()    # class names whose entry is contractually in the live registry
        self.preds = []      # (pred index, tag)

    def apply(self, op, tag):
        """-> expectation: ('eq', value) | ('any',) | None"""
        k = op[0]
        if k == 'rc':
            self.cls[op[1]] = (tag, True)
            self.live.add(op[1])
            return None
        if k == 'rn':
            self.cls[op[1]] = (tag, False)
            self.live.discard(op[1])
            return None
        if k == 'rp':
            self.preds.append((op[1], tag))
            return None
        if k in ('pr', 'prf', 'pc', 'pl'):
            c = BYNAME[op[1]]
            r = self.resolve(c)
            if r is not None:
                self.live.add(r)
                return ('eq', 'TAG%d' % self.cls[r][0])
            inst = c(flag=(k == 'prf'))
            for i, tag_ in self.preds:
                if PREDS[i][1](inst):
                    return ('eq', 'TAG%d' % tag_)
            return ('eq', 'REPR')
        if k == 'q':
            _, name, cs, cd, rd = op
            c = BYNAME[name]
            scope = [x.__name__ for x in (c.__mro__ if cs else (c,))]
            anyreg = any(x in self.cls for x in scope)
            if cd:
                return ('eq', anyreg)
            if any(x in self.live for x in scope):
                return ('eq', True)
            if not anyreg:
                return ('eq', False)
            return ('any',)
        raise ValueError(op)

    def resolve(self, c):
        for x in c.__mro__:
            if x.__name__ in self.cls:
                return x.__name__
        return None


def canon(impl, model, want_ren=False):
    """Canonical, hashable state: tags renamed in order of first appearance."""
    direct, deferred, preds = impl
    ren = {}

    def r(t):
        if t not in ren:
            ren[t] = len(ren)
        return ren[t]
    key = []
    for c in CLS + [object]:
        n = c.__name__
        m = model.cls.get(n)
        key.append((r(m[0]) if m else None, m[1] if m else None, n in model.live,
                    r(direct[n]) if n in direct else None, r(deferred[n]) if n in deferred else None))
    key.append(tuple((i, r(t)) for i, t in model.preds))
    key.append(tuple((i, r(t)) for i, t in preds))
    if want_ren:
        return tuple(key), ren
    return tuple(key)


def replay_history(R, hist):
    R.restore()
    m = Model()
    for i, op in enumerate(hist):
        impl_apply(op, i)
        m.apply(op, i)
    return m


def step(R, hist, op):
    """Restore, replay hist, apply op.  -> (observation, expectation, canon state after, impl unchanged?)"""
    m = replay_history(R, hist)
    before = impl_abstract(R)
    obs = impl_apply(op, len(hist))
    exp = m.apply(op, len(hist))
    after = impl_abstract(R)
    return obs, exp, canon(after, m), before == after


def verdict(op, obs, exp, unchanged):
    """-> None or (kind, detail)"""
    if op[0] == 'q' and op[3] is False and op[4] is True:
        return None     # not in OPS (illegal combination is checked separately)
    if exp is not None and exp[0] == 'eq' and obs != exp[1]:
        return ('wrong-dispatch' if op[0] in ('pr', 'prf', 'pc', 'pl') else 'wrong-is_registered', {'observed': obs, 'expected': exp[1]})
    if isinstance(obs, str) and (obs.startswith('EXC:') or obs.startswith('WARN:')):
        return ('exception-or-warning', {'observed': obs})
    if op[0] == 'q' and op[4] is False and not unchanged:
        return ('query-without-register_deferred-changed-state', {'observed': obs})
    return None


def expand(item):
    """Worker: expand a list of (canon key, history) states."""
    part = core.Part()
    R = registry.get()
    succ = []
    for key, hist in item:
        for op in OPS:
            part.n += 1
            part.c['transitions'] += 1
            obs, exp, nkey, unchanged = step(R, hist, op)
            bad = verdict(op, obs, exp, unchanged)
            if bad:
                part.violation(bad[0], {'history': [list(o) for o in hist], 'op': list(op)}, bad[1])
            if exp is not None and exp[0] == 'any':
                part.c['relational_answers'] += 1
            if obs not in (None, 'REPR', False):
                part.c['nontrivial_obs'] += 1
            if nkey != key:
                succ.append((nkey, hist + (op,)))
    R.restore()
    return {'part': part.pack(), 'succ': succ}


def unmerged(item):
    """Worker: every history of exactly `length` operations with the given first operations, WITHOUT
    state merging: module state that the abstraction cannot see (a cache a change might add) cannot
    hide behind a merged state.  Every operation of every history is checked against the model."""
    import itertools
    firsts, length = item
    part = core.Part()
    R = registry.get()
    for first in firsts:
        for rest in itertools.product(OPS, repeat=length - 1):
            hist = (first,) + rest
            R.restore()
            m = Model()
            for i, op in enumerate(hist):
                before = impl_abstract(R) if op[0] == 'q' else None
                obs = impl_apply(op, i)
                exp = m.apply(op, i)
                if i == length - 1 or True:
                    unchanged = True if before is None else (before == impl_abstract(R))
                    bad = verdict(op, obs, exp, unchanged)
                    if bad:
                        part.violation(bad[0], {'history': [list(o) for o in hist[:i]], 'op': list(op), 'unmerged': True}, bad[1])
                        break
            part.n += 1
            part.c['unmerged_histories'] += 1
            part.c['transitions'] += length
    R.restore()
    return {'part': part.pack(), 'succ': []}


def obs_vector(R, hist):
    m = replay_history(R, hist)
    _, ren = canon(impl_abstract(R), m, want_ren=True)
    out = []
    for op in OPS:
        r = step(R, hist, op)
        obs = r[0]
        if isinstance(obs, str) and obs.startswith('TAG'):
            obs = 'TAG#%s' % ren.get(int(obs[3:]), '?')      # tags compared up to the canonical renaming
        out.append((obs, r[2]))
    return tuple(out)


def validate(item):
    """Worker: differential validation of merged states: (key, hist1, hist2)."""
    part = core.Part()
    R = registry.get()
    for key, h1, h2 in item:
        part.c['merges_validated'] += 1
        v1, v2 = obs_vector(R, h1), obs_vector(R, h2)
        part.n += 2 * len(OPS)
        if v1 != v2:
            diff = [(list(op), a, b) for op, a, b in zip(OPS, v1, v2) if a != b][:3]
            part.violation('abstraction-merges-states-with-different-futures',
                           {'history': [list(o) for o in h1], 'history2': [list(o) for o in h2]}, repr(diff)[:500])
    R.restore()
    return {'part': part.pack(), 'succ': []}


def explore(res, depth):
    R = registry.get()
    R.restore()
    init = canon(impl_abstract(R), Model())
    seen = {init: ()}
    second = {}
    frontier = [(init, ())]
    levels = []
    for d in range(depth):
        groups = [frontier[i::core.NPROC * 2] for i in range(core.NPROC * 2)]
        outs = core.pmap(expand, [g for g in groups if g])
        nxt = []
        for o in outs:
            if 'part' not in o:
                res.add([o])     # harness crash packed by core._call
                continue
            res.add([o['part']])
            for key, hist in o['succ']:
                if key not in seen:
                    seen[key] = hist
                    nxt.append((key, hist))
                elif key not in second and hist != seen[key]:
                    second[key] = hist
        levels.append(len(nxt))
        frontier = nxt
        if not frontier:
            break
    # illegal flag combination must raise ValueError (in the initial state and after a registration)
    from prettyprinter import is_registered
    for hist in ((), (('rn', 'G'),)):
        replay_history(R, hist)
        res.agg.n += 1
        try:
            is_registered(G, check_deferred=False, register_deferred=True)
            res.agg.violation('illegal-flags-accepted', {'history': [list(o) for o in hist], 'op': ['q', 'G', False, False, True]})
        except ValueError:
            pass
    R.restore()
    ulen = 3 if depth <= 5 else 4          # quick: all histories of length 3; thorough: of length 4
    if ulen == 3:
        jobs = [([op], 3) for op in OPS]
    else:
        jobs = [([op], 3) for op in OPS] + [([op], 4) for op in OPS]
    for o in core.pmap(unmerged, jobs):
        res.add([o['part']] if 'part' in o else [o])
    pairs = [(k, seen[k], h2) for k, h2 in second.items()]
    groups = [pairs[i::core.NPROC * 2] for i in range(core.NPROC * 2)]
    for o in core.pmap(validate, [g for g in groups if g]):
        res.add([o['part']] if 'part' in o else [o])
    return seen, levels, len(pairs)


def run(tier, seed):
    res = core.Result(PROPERTY, LEVEL, tier, seed)
    depth = 4 if tier == 'quick' else 6
    seen, levels, merged = explore(res, depth)
    a = res.agg
    hs = sorted(seen.values(), key=len)
    res.agg.nontrivial = a.c['nontrivial_obs']
    res.coverage = {
        'states': len(seen), 'transitions': a.c['transitions'],
        'traces_validated_against_impl': a.c['transitions'],
        'exhaustive': True,
        'rule': 'BFS over all histories up to depth %d over %d operations, merged by canonical (implementation, model) '
                'state; every transition executes the real package from a restored snapshot and is compared with the '
                'reference model; non-trivial = transitions whose observation is a tag or True' % (depth, len(OPS)),
        'depth': depth, 'new_states_per_level': levels, 'operations': len(OPS),
        'merged_states_validated_differentially': merged,
        'unmerged_histories (length 3; thorough also length 4)': a.c['unmerged_histories'],
        'relational_answers': a.c['relational_answers'],
        'samples': [{'history': [list(o) for o in h]} for h in (hs[len(hs) // 3], hs[-1], hs[len(hs) // 2])],
    }
    res.assumptions = ['every transition is executed on the real registries (restored snapshot + replay), so every model '
                       'trace is an implementation trace', 'is_registered(check_deferred=False) is only constrained '
                       'where the statement and the pinned tests constrain it (relational model)']
    return res


def replay(case):
    R = registry.get()
    hist = tuple(tuple(o) for o in case['history'])
    lines = []
    ok = True
    if 'op' in case:
        op = tuple(case['op'])
        if op == ('q', 'G', False, False, True):
            from prettyprinter import is_registered
            replay_history(R, hist)
            try:
                is_registered(G, check_deferred=False, register_deferred=True)
                ok = False
                lines.append('illegal flag combination accepted')
            except ValueError:
                lines.append('ValueError raised as required')
        else:
            obs, exp, nkey, unchanged = step(R, hist, op)
            bad = verdict(op, obs, exp, unchanged)
            lines.append('history: %s' % (hist,))
            lines.append('op: %s observed: %r expected: %r state unchanged: %s' % (op, obs, exp, unchanged))
            ok = bad is None
    if 'history2' in case:
        h2 = tuple(tuple(o) for o in case['history2'])
        ok = obs_vector(R, hist) == obs_vector(R, h2)
        lines.append('observation vectors equal: %s' % ok)
    R.restore()
    return ok, '\n'.join(lines)
