"""C12 - printing terminates and its work grows polynomially with the input.

Step monitor: sys.monitoring LINE events restricted to code objects of the package are counted
during one pformat call (exactly reproducible, no wall time).  Every family F of an enumerated
grammar (nestings, flat sequences, strings, commented nestings, every wrapper recipe up to a
length bound) is measured at n, 2n, 4n, 8n.  Oracle: steps(2n) <= 8 * steps(n) + slack for every
consecutive pair (8 = the factor of cubic growth), enforced as a step *budget* on the next run so
that a blow-up is reported instead of waited for; exceeding the absolute budget of the first run
is a termination violation.
"""
import itertools
import os
import sys

from .. import core, fixtures
from ..fixtures import Call

PROPERTY = 'C12'
LEVEL = 'exploration'

FACTOR = 8
SLACK = 2000
FIRST_BUDGET = 3 * 10 ** 6
TOOL = 4


class StepBudgetExceeded(BaseException):
    pass


class Monitor:
    def __init__(self):
        import prettyprinter
        self.pkg = os.path.dirname(os.path.abspath(prettyprinter.__file__))
        self.mon = sys.monitoring
        self.count = 0
        self.budget = None
        try:
            self.mon.use_tool_id(TOOL, 'verif-c12')
        except ValueError:
            pass
        self.mon.register_callback(TOOL, self.mon.events.LINE, self.on_line)

    def on_line(self, code, line):
        if code.co_filename.startswith(self.pkg):
            self.count += 1
            if self.budget is not None and self.count > self.budget:
                self.budget = None
                raise StepBudgetExceeded()
            return None
        return self.mon.DISABLE

    def steps(self, value, budget, **kw):
        """-> (steps, status) with status 'ok' | 'budget' | 'exc:<Type>'"""
        from prettyprinter import pformat
        import warnings
        self.count = 0
        self.budget = budget
        self.mon.restart_events()
        self.mon.set_events(TOOL, self.mon.events.LINE)
        status = 'ok'
        try:
            with warnings.catch_warnings():
                warnings.simplefilter('ignore')
                pformat(value, **kw)
        except StepBudgetExceeded:
            status = 'budget'
        except RecursionError:
            status = 'exc:RecursionError'
        except Exception as e:     # noqa
            status = 'exc:' + type(e).__name__
        finally:
            self.mon.set_events(TOOL, 0)
            self.budget = None
        return self.count, status


_MON = []


def monitor():
    if not _MON:
        _MON.append(Monitor())
    return _MON[0]


# ----------------------------------------------------------------------------- families

def chain(wrap, n, leaf=1):
    v = leaf
    for _ in range(n):
        v = wrap(v)
    return v


def wrappers():
    from prettyprinter import comment, trailing_comment
    return {
        'list': lambda v: [v],
        'tuple': lambda v: (v,),
        'dictval': lambda v: {'k': v},
        'dictkey': lambda v: {(hashable(v),): 1},
        'c_elem': lambda v: [comment(v, 'c')],
        'c_dictval': lambda v: {'k': comment(v, 'c')},
        'callarg': lambda v: Call(v),
        'list2': lambda v: [v, 0],
        'dict3': lambda v: {'k': v, 'j': 2, 'i': 3},
        'frozenset': lambda v: frozenset([hashable(v)]),
        'c_dictkey': lambda v: {comment('k', 'c'): v},
        'tc_list': lambda v: trailing_comment([v], 't'),
        'c_tuple': lambda v: (comment(v, 'c'), 0),
        'c_kwarg': lambda v: Call(kw=comment(v, 'c')),
        'tc_dict': lambda v: trailing_comment({'k': v}, 't'),
        'ordereddict': lambda v: __import__('collections').OrderedDict([('k', v)]),
        'deque': lambda v: __import__('collections').deque([v], maxlen=3),
        'defaultdict': lambda v: __import__('collections').defaultdict(list, {'k': v}),
        'chainmap': lambda v: __import__('collections').ChainMap({'k': v}),
        'namespace': lambda v: __import__('types').SimpleNamespace(a=v),
        'namedtuple': lambda v: fixtures.NT(v, 0),
        'sublist': lambda v: fixtures.SUBCLASSES[list][0]([v]),
        'subdict': lambda v: fixtures.SUBCLASSES[dict][0]({'k': v}),
        'partial': lambda v: __import__('functools').partial(fixtures.f, v),
        'exception': lambda v: ValueError(v),
        'c_callarg': lambda v: Call(comment(v, 'c'), 1),
        'c_callhug': lambda v: Call(comment([v], 'c')),         # the sole (hugged) argument of a call carries the comment
        'tc_callhug': lambda v: Call(trailing_comment([v], 't')),
        'c_exc': lambda v: ValueError(comment([v], 'c')),
    }


class _H:
    """Hashable stand-in that prints like the wrapped (unhashable) value's size only."""


def hashable(v):
    try:
        hash(v)
        return v
    except TypeError:
        return repr(type(v))


RECIPE_ALPHABET = ['list', 'tuple', 'dictval', 'dictkey', 'c_elem', 'c_dictval', 'callarg', 'c_callhug']


def named_families():
    """name -> (builder(n), base n)"""
    W = wrappers()
    fams = {}
    for name in ('list', 'tuple', 'list2', 'dictval', 'dict3', 'frozenset', 'c_elem', 'c_dictval', 'c_dictkey',
                 'tc_list', 'c_tuple', 'callarg', 'c_kwarg', 'tc_dict', 'ordereddict', 'deque', 'defaultdict', 'chainmap',
                 'namespace', 'namedtuple', 'sublist', 'subdict', 'partial', 'exception', 'c_callarg',
                 'c_callhug', 'tc_callhug', 'c_exc'):
        fams['nest:' + name] = ((lambda n, w=W[name]: chain(w, n)), 4)
    fams['nest:dictkey'] = (lambda n: {chain(lambda v: (v,), n): 1}, 4)
    for leafname, leaves in (('complex', (1j, 2j)), ('mixed', (1, 'a')), ('none-vs-int', (None, 0)), ('functions', (len, max))):
        fams['keys:deep-tuple-' + leafname] = (lambda n, leaves=leaves: {chain(lambda v: (v,), n, leaves[0]): 1, chain(lambda v: (v,), n, leaves[1]): 2,
                                                                          chain(lambda v: (0, v), n, leaves[0]): 3}, 4)
    fams['keys:many-unorderable'] = (lambda n: {(complex(i, 1) if i % 2 else 'k%d' % i): i for i in range(n * 10)}, 4)
    fams['flat:list'] = (lambda n: list(range(n * 20)), 4)
    fams['flat:dict'] = (lambda n: {i: i for i in range(n * 20)}, 4)
    fams['flat:set'] = (lambda n: set(range(n * 20)), 4)
    fams['flat:tuple-of-str'] = (lambda n: tuple('s%d' % i for i in range(n * 20)), 4)
    fams['str:words'] = (lambda n: 'ab ' * (n * 50), 4)
    fams['str:nobreak'] = (lambda n: 'a' * (n * 100), 4)
    fams['str:escapes'] = (lambda n: '\n' * (n * 50), 4)
    fams['str:quotes'] = (lambda n: "'\"" * (n * 50), 4)
    fams['bytes:words'] = (lambda n: b'ab ' * (n * 50), 4)
    # character classes a splitter may treat specially: combining marks, zero-width and astral characters, blanks
    zalgo = 'e' + '\u0301\u0323' * 7
    fams['str:combining-runs'] = (lambda n: zalgo * (n * 10), 4)
    fams['str:combining-only'] = (lambda n: '\u0301' * (n * 60), 4)
    fams['str:combining-nested-until-no-width'] = (lambda n: chain(W['list'], n, zalgo * 6), 4)
    fams['str:combining-words-nested-in-dicts'] = (lambda n: chain(W['dictval'], n, (zalgo + ' ') * 5), 4)
    fams['str:zero-width-and-astral'] = (lambda n: 'a\u200d\U0001f600\u200b' * (n * 25), 4)
    fams['str:blanks'] = (lambda n: ' \t ' * (n * 40), 4)
    fams['str:nested-until-no-width'] = (lambda n: chain(W['list'], n, 'x y ' * 10), 4)
    fams['str:nested-in-dicts'] = (lambda n: chain(W['dictval'], n, 'word ' * 12), 4)
    fams['comment:long-text'] = (lambda n: [__import__('prettyprinter').comment(1, 'w ' * (n * 20))], 4)
    fams['comment:every-level-both'] = (lambda n: chain(lambda v: W['tc_list'](W['c_elem'](v)), n), 2)
    return fams


def recipe_families(maxlen):
    W = wrappers()
    for k in range(1, maxlen + 1):
        for rec in itertools.product(RECIPE_ALPHABET, repeat=k):
            if k == 1:
                continue      # single wrappers are in named_families
            def build(n, rec=rec):
                v = 1
                for i in range(n):
                    v = W[rec[(n - 1 - i) % len(rec)]](v)
                return v
            yield 'recipe:' + '/'.join(rec), (build, 4)


def all_families(tier):
    fams = dict(named_families())
    for name, f in recipe_families(3):
        fams[name] = f
    return fams


def measure_family(name, build, n0, part, widths=(20, 79)):
    mon = monitor()
    for w, srt in [(w, False) for w in widths] + [(79, True)]:
        prev = None
        series = []
        for k in range(4):
            n = n0 * (2 ** k)
            try:
                v = build(n)
            except RecursionError:
                break
            budget = FIRST_BUDGET if prev is None else FACTOR * prev + SLACK
            part.n += 1
            steps, status = mon.steps(v, budget, width=w, sort_dict_keys=srt)
            case = {'family': name, 'n': n, 'width': w, 'sort_dict_keys': srt}
            series.append(steps)
            if status == 'budget':
                if prev is None:
                    part.violation('step-budget-exceeded-termination', case, {'budget': budget})
                else:
                    part.violation('super-polynomial-growth', case, {
                        'steps_at_half_n': prev, 'budget_for_n': budget, 'aborted_after_steps': steps,
                        'series': series})
                break
            if status != 'ok':
                part.violation('exception', case, status)
                break
            prev = steps
        part.c['series'] += 1
        if len(series) == 4:
            part.nontrivial += 1
            ratios = [round(series[i + 1] / max(1, series[i]), 2) for i in range(3)]
            part.c['max_ratio_x100'] = max(part.c['max_ratio_x100'], int(max(ratios) * 100))
            if len(part.samples) < 2:
                part.sample({'family': name, 'width': w, 'sort_dict_keys': srt, 'steps': series, 'ratios': ratios})


def work(item):
    fixtures.register()
    tier, names = item
    fams = all_families(tier)
    part = core.Part()
    for name in names:
        build, n0 = fams[name]
        measure_family(name, build, n0, part)
    return part


def run(tier, seed):
    fixtures.register()
    res = core.Result(PROPERTY, LEVEL, tier, seed)
    names = sorted(all_families(tier))
    groups = [names[i::core.NPROC * 2] for i in range(core.NPROC * 2)]
    outs = core.pmap(work, [(tier, g) for g in groups if g])
    res.add(outs)
    a = res.agg
    maxr = max([o['c'].get('max_ratio_x100', 0) for o in outs] + [0]) / 100.0
    a.c['max_ratio_x100'] = int(maxr * 100)
    res.coverage = {
        'exhaustive': True,
        'rule': 'every family of the grammar (named families + every wrapper recipe of length <= %d over %s) measured at '
                'n, 2n, 4n, 8n and widths 20, 79 by counting package LINE events; non-trivial = complete 4-point series'
                % (3, RECIPE_ALPHABET),
        'families': len(names), 'largest_observed_doubling_ratio': maxr,
        'bound': 'steps(2n) <= %d * steps(n) + %d, first run <= %d steps' % (FACTOR, SLACK, FIRST_BUDGET),
        'limit': 'a bounded check of a growth law on enumerated families, not a proof of a polynomial bound',
    }
    res.assumptions = ['sys.monitoring LINE events of package code objects measure the work; counts are deterministic']
    return res


def replay(case):
    fixtures.register()
    fams = all_families('thorough')
    build, n0 = fams[case['family']]
    part = core.Part()
    measure_family(case['family'], build, n0, part, widths=(case['width'],))
    lines = ['family %s width %s' % (case['family'], case['width'])]
    for s in part.samples:
        lines.append(repr(s))
    for v in part.violations:
        lines.append('violation kind=%s case=%s detail=%s' % (v['kind'], v['case'], v['detail']))
    return not part.violations, '\n'.join(lines)
