"""C14 - a failing printer is contained at the value it was printing.

Fault enumeration: every tree (up to a node bound) of instrumented user objects of three classes
(printer via pretty_call; printer returning a hand-built Doc; printer accepting trailing_comment)
mixed with list / dict / tuple nodes, every single node optionally wrapped in comment() or
trailing_comment(); one fault-free run numbers the printer invocations; then for every invocation
index i and every exception class the run is repeated with the i-th invocation raising (thorough:
every ordered pair of faults).
Differential oracle: T_stub = the output when the i-th invocation *returns* repr(value) instead of
raising.  Required: pformat returns T_stub, exactly one 'raised an exception' UserWarning per
fault naming the printer, later fault-free prints equal the baseline, and a printer returning an
int is reported with ValueError.
"""
import itertools
import warnings

from .. import core, registry

PROPERTY = 'C14'
LEVEL = 'fault_enumeration'


class U1:
    def __init__(self, *ch):
        self.ch = ch

    def __repr__(self):
        return 'U1<%d>' % len(self.ch)


class U2(U1):
    def __repr__(self):
        return 'U2<%d>' % len(self.ch)


class U3(U1):
    def __repr__(self):
        return 'U3<%d>' % len(self.ch)


class U4(U1):
    """Printer accepts trailing_comment only through **kwargs."""

    def __repr__(self):
        return 'U4<%d>' % len(self.ch)


class BaseByName(U1):
    """Its printer is registered by qualified name and is still pending when a run starts."""

    def __repr__(self):
        return 'BaseByName<%d>' % len(self.ch)


class UD(BaseByName):
    """Subclass instance: the pending printer of the base is promoted through the MRO."""

    def __repr__(self):
        return 'UD<%d>' % len(self.ch)


class Custom(Exception):
    pass


EXCS = [ValueError, TypeError, KeyError, AttributeError, RuntimeError, AssertionError, StopIteration,
        Custom, UnicodeError, ZeroDivisionError, LookupError, OSError]


def _kwarg_text_typeerror(_msg):
    """A genuine TypeError raised *inside* a printer whose text looks like the interpreter's complaint
    about the printer's own signature (e.g. the printer forwarded the keyword to a helper that lacks it)."""
    return TypeError("helper() got an unexpected keyword argument 'trailing_comment'")


_kwarg_text_typeerror.__name__ = 'TypeError-with-unexpected-keyword-text'
EXCS.append(_kwarg_text_typeerror)
EXC_BY_NAME = {e.__name__: e for e in EXCS}

STATE = {'i': -1, 'plan': {}, 'fired': 0}


def hook(v):
    """-> None (run normally) | a replacement return value"""
    STATE['i'] += 1
    f = STATE['plan'].get(STATE['i'])
    if f is None:
        return None
    STATE['fired'] += 1
    if f[0] == 'raise':
        raise EXC_BY_NAME[f[1]]('boom')
    if f[0] == 'stub':
        return repr(v)
    if f[0] == 'int':
        return 42
    raise ValueError(f)


_reg = []
DEFERRED = {}


def ensure_registered():
    if _reg:
        return
    from prettyprinter import register_pretty, pretty_call
    from prettyprinter.prettyprinter import pretty_python_value
    from prettyprinter.doc import concat

    @register_pretty(U1)
    def p_u1(v, ctx):
        r = hook(v)
        if r is not None:
            return r
        return pretty_call(ctx, U1, *v.ch)

    @register_pretty(U2)
    def p_u2(v, ctx, trailing_comment=None):
        r = hook(v)
        if r is not None:
            return r
        return pretty_call(ctx, U2, *v.ch)

    @register_pretty(U4)
    def p_u4(v, ctx, **kwargs):
        r = hook(v)
        if r is not None:
            return r
        return pretty_call(ctx, U4, *v.ch)

    def p_ud(v, ctx):
        r = hook(v)
        if r is not None:
            return r
        return pretty_call(ctx, type(v), *v.ch)
    DEFERRED['mc.checks.c14.BaseByName'] = p_ud

    @register_pretty(U3)
    def p_u3(v, ctx):
        r = hook(v)
        if r is not None:
            return r
        docs = ['U3!(']
        for i, c in enumerate(v.ch):
            if i:
                docs.append(', ')
            docs.append(pretty_python_value(c, ctx.nested_call()))
        docs.append(')')
        return concat(docs)
    # functions made by exec() in a namespace without __name__ (as dataclasses / attrs generate methods)
    # have no module: two of the printers are of that kind
    p_u3.__module__ = None
    p_u2.__module__ = None
    _reg.append(1)
    registry.get().snap()


PRINTER_NAMES = {'U1': 'p_u1', 'U2': 'p_u2', 'U3': 'p_u3', 'U4': 'p_u4', 'UD': 'p_ud'}


# ----------------------------------------------------------------------------- trees

KINDS = ('U1', 'U2', 'U3', 'U4', 'UD', 'list', 'dict', 'tuple')


def shapes(n):
    """Ordered trees with n nodes, <= 2 children per node."""
    if n == 1:
        yield ()
        return
    for t in shapes(n - 1):
        yield (t,)
    for a in range(1, n - 1):
        for x in shapes(a):
            for y in shapes(n - 1 - a):
                yield (x, y)


def count(shape):
    return 1 + sum(count(c) for c in shape)


def specs(nmax):
    """(shape, kinds per node in preorder, wrap = None | (node index, 'c' | 't' | 'ct'))"""
    for n in range(1, nmax + 1):
        for shape in shapes(n):
            for kinds in itertools.product(KINDS, repeat=n):
                if not any(k.startswith('U') for k in kinds):
                    continue
                yield (shape, kinds, None)
                for i in range(n):
                    yield (shape, kinds, (i, 'c'))
                    yield (shape, kinds, (i, 't'))
                    if i == 0:
                        yield (shape, kinds, (i, 'ct'))


def build(spec):
    from prettyprinter import comment, trailing_comment
    shape, kinds, wrap = spec
    counter = [0]

    def mk(sh):
        i = counter[0]
        counter[0] += 1
        kind = kinds[i]
        ch = [mk(c) for c in sh]
        if not ch and kind in ('list', 'dict', 'tuple'):
            ch = [i]
        if kind == 'list':
            v = list(ch)
        elif kind == 'tuple':
            v = tuple(ch)
        elif kind == 'dict':
            v = {'k%d' % j: c for j, c in enumerate(ch)}
        else:
            v = {'U1': U1, 'U2': U2, 'U3': U3, 'U4': U4, 'UD': UD}[kind](*ch)
        if wrap and wrap[0] == i:
            if 't' in wrap[1]:
                v = trailing_comment(v, 'tc')
            if 'c' in wrap[1]:
                v = comment(v, 'cm')
        return v
    return mk(shape)


def run_once(spec, plan):
    from prettyprinter import pformat
    v = build(spec)
    # every run starts from the same registries: the by-name printer of BaseByName is pending again
    # (no snapshot restore here: whatever an earlier run left behind in the package must stay visible to the
    # next one - "later calls are unaffected by an earlier failure" is part of the property)
    from prettyprinter import register_pretty
    for name, fn in DEFERRED.items():
        register_pretty(name)(fn)          # public API: registered by name, pending until first use
    STATE['i'] = -1
    STATE['plan'] = plan
    STATE['fired'] = 0
    with warnings.catch_warnings(record=True) as ws:
        warnings.simplefilter('always')
        try:
            out = ('ok', pformat(v, width=30))
        except BaseException as e:     # noqa
            out = ('exc', type(e).__name__)
    STATE['plan'] = {}
    msgs = [str(w.message) for w in ws]
    return out, msgs, STATE['i'] + 1, STATE['fired']


def bad_printer_warnings(msgs):
    return [m for m in msgs if 'raised an exception' in m]


def check_fault(spec, faults, base, part):
    """faults: dict index -> exception name.  Compare with the stub run."""
    case = {'tree': spec_json(spec), 'faults': {str(k): v for k, v in faults.items()}}
    stub, smsgs, _, sfired = run_once(spec, {i: ('stub',) for i in faults})
    got, gmsgs, _, fired = run_once(spec, {i: ('raise', e) for i, e in faults.items()})
    part.n += 2
    if got[0] != 'ok':
        part.violation('fault-escaped-pformat', case, {'raised': got[1], 'stub_output': stub[1]})
    elif stub[0] == 'ok' and got[1] != stub[1]:
        part.violation('fault-not-contained-at-its-value', case, {'output': got[1], 'expected_stub_output': stub[1]})
    else:
        nbad = bad_printer_warnings(gmsgs)
        # a planned fault whose invocation never happens (its parent already failed) cannot warn
        if len(nbad) != fired or fired != sfired:
            part.violation('wrong-number-of-warnings', case, {'warnings': [m[:120] for m in gmsgs], 'faults_fired': fired, 'fired_in_stub_run': sfired})
        elif not all(any(n in m for n in PRINTER_NAMES.values()) and 'UserWarning' != '' for m in nbad):
            part.violation('warning-does-not-name-the-printer', case, [m[:160] for m in nbad])
    after, amsgs, _, _f = run_once(spec, {})
    part.n += 1
    if after != base[0] or bad_printer_warnings(amsgs):
        part.violation('later-call-affected', case, {'after': after, 'baseline': base[0]})
    part.nontrivial += 1


def check_int(spec, i, part):
    case = {'tree': spec_json(spec), 'non_doc_return_at': i}
    got, msgs, _, _f = run_once(spec, {i: ('int',)})
    part.n += 1
    if got == ('exc', 'ValueError'):
        return
    if i == 0 and spec[1][0].startswith('U') and not spec[2]:       # the printer of the top-level value
        part.violation('non-doc-return-not-reported', case, {'result': got})
    elif not any('ValueError' in m for m in msgs):
        # nested: the enclosing printer may contain it, but the ValueError must be reported
        part.violation('non-doc-return-not-reported', case, {'result': got, 'warnings': [m[:100] for m in msgs]})


def spec_json(spec):
    return {'shape': repr(spec[0]), 'kinds': list(spec[1]), 'wrap': list(spec[2]) if spec[2] else None}


def check_spec(spec, part, pairs):
    base = run_once(spec, {})
    part.n += 1
    if base[0][0] != 'ok' or bad_printer_warnings(base[1]):
        part.violation('fault-free-run-fails', {'tree': spec_json(spec)}, {'result': base[0], 'warnings': base[1][:2]})
        return
    ninv = base[2]
    for i in range(ninv):
        for e in EXCS:
            check_fault(spec, {i: e.__name__}, base, part)
        check_int(spec, i, part)
    if pairs:
        for i, j in itertools.permutations(range(ninv), 2):
            if i < j:
                for e1, e2 in (('ValueError', 'TypeError'), ('TypeError', 'KeyError'), ('StopIteration', 'Custom')):
                    check_fault(spec, {i: e1, j: e2}, base, part)
    part.c['trees'] += 1
    part.c['invocations'] += ninv
    if len(part.samples) < 1 and ninv >= 2:
        part.sample({'tree': spec_json(spec), 'invocations': ninv, 'baseline': base[0][1]})


def work(item):
    ensure_registered()
    nmax, lo, hi, pairs = item
    part = core.Part()
    for spec in itertools.islice(specs(nmax), lo, hi):
        check_spec(spec, part, pairs)
    return part


def run(tier, seed):
    ensure_registered()
    res = core.Result(PROPERTY, LEVEL, tier, seed)
    nmax = 3 if tier == 'quick' else 4
    total = sum(1 for _ in specs(nmax))
    res.add(core.pmap(work, [(nmax, lo, hi, tier != 'quick') for lo, hi in core.chunks(total, 128)]))
    a = res.agg
    res.coverage = {
        'exhaustive': True,
        'rule': 'every tree with <= %d nodes over %s (at least one instrumented node), every single comment / '
                'trailing_comment placement, every printer invocation index x %d exception classes (single faults%s) '
                'and a non-Doc return at every index; non-trivial = fault runs compared with their stub run'
                % (nmax, list(KINDS), len(EXCS), '' if tier == 'quick' else ' and all ordered index pairs x 3 class pairs'),
        'trees': a.c['trees'], 'printer_invocations_numbered': a.c['invocations'],
        'exception_classes': [e.__name__ for e in EXCS],
    }
    res.assumptions = ['a printer that returns repr(value) is the definition of "that value alone rendered with its repr"',
                       'for a non-Doc return below the top level either ValueError out of pformat or a warning quoting '
                       'the ValueError is accepted (the statement does not say which)']
    return res


def replay(case):
    ensure_registered()
    t = case['tree']
    spec = (eval(t['shape']), tuple(t['kinds']), tuple(t['wrap']) if t['wrap'] else None)
    part = core.Part()
    base = run_once(spec, {})
    lines = ['tree: %s' % t, 'baseline: %r' % (base[0],)]
    if 'faults' in case:
        faults = {int(k): v for k, v in case['faults'].items()}
        check_fault(spec, faults, base, part)
        lines.append('with faults %s: %r' % (faults, run_once(spec, {i: ('raise', e) for i, e in faults.items()})[0]))
        lines.append('stub run: %r' % (run_once(spec, {i: ('stub',) for i in faults})[0],))
    elif 'non_doc_return_at' in case:
        check_int(spec, case['non_doc_return_at'], part)
    else:
        check_spec(spec, part, False)
    for v in part.violations:
        lines.append('violation kind=%s detail=%s' % (v['kind'], v['detail']))
    return not part.violations, '\n'.join(lines)
