"""C18 - all entry points and configuration layers agree.

Explicit-state search over the module-global default configuration: 32 states (two values for
each of width, ribbon_width, depth, max_seq_len, sort_dict_keys), 243 set_default_config
operations (every key unset / value a / value b) - all 32 x 243 transitions are executed on the
real module from the pristine configuration by replaying a shortest history.  In every state, for
three probe values and all 3^6 combinations of {explicit a, explicit b, defaulted} for the six
settings, every entry point (pformat, pprint with three `end` strings, cpprint with colour off,
PrettyPrinter(...).pformat / .pprint, pretty_repr) must produce the text of the reference: a
dictionary merge (explicit over model state) looked up in a table text[(value, effective
settings)] that is filled once and must be the same in every state.
"""
import io
import itertools

from .. import core, fixtures
from ..fixtures import Call

PROPERTY = 'C18'
LEVEL = 'model_checking'

KEYS = ('width', 'ribbon_width', 'depth', 'max_seq_len', 'sort_dict_keys')
DOM = {'indent': (4, 2, 8), 'width': (79, 20), 'ribbon_width': (71, 10), 'depth': (None, 1),
       'max_seq_len': (1000, 2), 'sort_dict_keys': (False, True)}
PRISTINE = {'indent': 4, 'width': 79, 'ribbon_width': 71, 'depth': None, 'max_seq_len': 1000, 'sort_dict_keys': False}
EXPL = {'indent': (2, 8), 'width': (79, 20), 'ribbon_width': (71, 10), 'depth': (None, 1),
        'max_seq_len': (1000, 2), 'sort_dict_keys': (False, True)}
ALLKEYS = ('indent',) + KEYS


import abc


class Shape(abc.ABC):
    """A printer is registered for this ABC; VirtualSquare belongs to it only through register()."""


class VirtualSquare:
    def __init__(self, side):
        self.side = side

    def __eq__(self, other):
        return type(other) is VirtualSquare and other.side == self.side

    def __hash__(self):
        return 3


Shape.register(VirtualSquare)


class ListStream(list):
    """A capture buffer that is falsy while it is empty."""

    def write(self, s):
        self.append(s)

    def getvalue(self):
        return ''.join(self)


_shape_reg = []


def ensure_shape_printer():
    if _shape_reg:
        return
    from prettyprinter import register_pretty, pretty_call, pretty_repr

    @register_pretty(Shape)
    def pretty_shape(v, ctx):
        return pretty_call(ctx, type(v), v.side)
    VirtualSquare.__repr__ = pretty_repr
    _shape_reg.append(1)


def probes():
    return [
        {'b': [1, 2, 3, [4, 5]], 'a': 'x' * 12},
        [list(range(8)), {'z': 1, 'y': (2, 3)}, 'word ' * 6],
        Call([1, 2, 3], kw={'k': [7, 8, 9]}),
        VirtualSquare([1, [2, 3], 'side ' * 5]),
    ]


def pristine_module():
    """Back to the pristine defaults through the public API (no knowledge of where they are kept)."""
    import prettyprinter
    prettyprinter.set_default_config(**{k: v for k, v in PRISTINE.items() if k != 'indent'})
    return prettyprinter


def ops():
    for combo in itertools.product((None, 0, 1), repeat=len(KEYS)):
        yield {k: DOM[k][c] for k, c in zip(KEYS, combo) if c is not None}


def state_key(cfg):
    return tuple(cfg[k] for k in ALLKEYS)


def explicit_combos():
    for combo in itertools.product((None, 0, 1), repeat=len(ALLKEYS)):
        yield {k: EXPL[k][c] for k, c in zip(ALLKEYS, combo) if c is not None}


def freeze(d):
    return tuple(sorted(d.items(), key=lambda kv: kv[0]))


def replay_to(history):
    pp = pristine_module()
    model = dict(PRISTINE)
    for op in history:
        pp.set_default_config(**op)
        model.update(op)
    return pp, model


def observe_state(history, part, table):
    """All entry points x all explicit/default combinations in the state reached by history."""
    import colorful
    colorful.disable()
    # PrettyPrinter objects constructed *earlier* in the history (in the pristine state, and after its
    # first step): settings they were not given are defaults, and defaults are read when they are used
    pp0 = pristine_module()
    early = {freeze(kw): pp0.PrettyPrinter(**kw) for kw in explicit_combos()} if history else {}
    mid = {}
    if len(history) >= 2:
        pp0.set_default_config(**history[0])
        mid = {freeze(kw): pp0.PrettyPrinter(**kw) for kw in explicit_combos()}
    pp, model = replay_to(history)
    vals = probes()
    if dict(pp.get_default_config()) != model:
        part.violation('get_default_config-differs', {'history': history}, {'got': repr(dict(pp.get_default_config())), 'model': repr(model)})
    for vi, v in enumerate(vals):
        for kw in explicit_combos():
            eff = dict(model)
            eff.update(kw)
            tkey = (vi, freeze(eff))
            case = {'history': history, 'probe': vi, 'explicit': kw}

            def expect(entry, got):
                part.n += 1
                want = table.get(tkey)
                if want is None:
                    table[tkey] = got
                    part.c['table_entries'] += 1
                elif got != want:
                    part.violation('entry-point-disagrees', dict(case, entry=entry), {'got': got, 'reference': want})
            try:
                ref = pp.pformat(v, **eff)                     # everything explicit
                expect('pformat-all-explicit', ref)
                expect('pformat', pp.pformat(v, **kw))
                for end in ('\n', '', 'X'):
                    s = io.StringIO()
                    pp.pprint(v, stream=s, end=end, **kw)
                    out = s.getvalue()
                    if not out.endswith(end):
                        part.violation('pprint-end-missing', dict(case, entry='pprint', end=end), out[-20:])
                    expect('pprint end=%r' % end, out[:len(out) - len(end)] if end else out)
                s = io.StringIO()
                pp.cpprint(v, stream=s, end='', **kw)
                expect('cpprint(colour off)', s.getvalue())
                expect('PrettyPrinter.pformat', pp.PrettyPrinter(**kw).pformat(v))
                if early:
                    expect('PrettyPrinter constructed before the history, .pformat now', early[freeze(kw)].pformat(v))
                if mid:
                    expect('PrettyPrinter constructed after the first step, .pformat now', mid[freeze(kw)].pformat(v))
                s = io.StringIO()
                pp.PrettyPrinter(stream=s, **kw).pprint(v)
                out = s.getvalue()
                expect('PrettyPrinter.pprint', out[:-1] if out.endswith('\n') else out + '<no newline>')
                if not kw and isinstance(v, (Call, VirtualSquare)):
                    import warnings as _w
                    with _w.catch_warnings(record=True) as ws:
                        _w.simplefilter('always')
                        text = pp.pretty_repr(v)
                    if ws:
                        part.violation('pretty_repr-warns-for-a-registered-type', dict(case, entry='pretty_repr'), str(ws[0].message)[:160])
                    expect('pretty_repr', text)
                    if isinstance(v, VirtualSquare):
                        expect('repr() through __repr__ = pretty_repr', repr(v))
                # a stream that is falsy while empty is still the given stream
                for entry, call in (('pprint', lambda st: pp.pprint(v, stream=st, end='', **kw)),
                                    ('cpprint', lambda st: pp.cpprint(v, stream=st, end='', **kw)),
                                    ('PrettyPrinter.pprint', lambda st: pp.PrettyPrinter(stream=st, **kw).pprint(v))):
                    if vi != 1:
                        break
                    st = ListStream()
                    call(st)
                    out = st.getvalue()
                    expect(entry + ' to a falsy-when-empty stream', out[:-1] if entry == 'PrettyPrinter.pprint' and out.endswith('\n') else out)
            except Exception as e:     # noqa
                part.n += 1
                part.violation('exception', case, '%s: %s' % (type(e).__name__, e))
    pristine_module()


def work_state(item):
    fixtures.register()
    ensure_shape_printer()
    part = core.Part()
    table = {}
    for history in item:
        observe_state(history, part, table)
        part.c['states_observed'] += 1
    # table is per worker; cross-state agreement is checked by the master on the packed tables
    return {'part': part.pack(), 'table': table}


def run(tier, seed):
    fixtures.register()
    ensure_shape_printer()
    res = core.Result(PROPERTY, LEVEL, tier, seed)
    pp = pristine_module()
    # --- BFS over default-config states: every transition executed on the real module
    init = state_key(PRISTINE)
    shortest = {init: []}
    second = {}
    frontier = [init]
    transitions = 0
    allops = list(ops())
    while frontier:
        nxt = []
        for sk in frontier:
            hist = shortest[sk]
            for op in allops:
                pp, model = replay_to(hist)
                before = dict(pp.get_default_config())
                ret = pp.set_default_config(**op)
                model.update(op)
                transitions += 1
                res.agg.n += 1
                got = dict(pp.get_default_config())
                if got != model or dict(ret) != model:
                    res.agg.violation('set_default_config-wrong-state', {'history': hist, 'op': op},
                                      {'got': repr(got), 'returned': repr(ret), 'model': repr(model)})
                changed = {k for k in got if got[k] != before.get(k)}
                if not changed <= set(op):
                    res.agg.violation('set_default_config-changed-other-key', {'history': hist, 'op': op}, sorted(changed))
                nk = state_key(model)
                if nk not in shortest:
                    shortest[nk] = hist + [op]
                    nxt.append(nk)
                elif nk not in second and hist + [op] != shortest[nk]:
                    second[nk] = hist + [op]
        frontier = nxt
    pristine_module()
    # --- observation vector in every state (parallel by state), two histories per state
    states = sorted(shortest, key=repr)
    if tier == 'quick':
        # complete observation in the pristine state, the all-b state and a seed-rotated third of the others
        pick = [s for i, s in enumerate(states) if s == init or i % 3 == seed % 3 or i == len(states) - 1]
    else:
        pick = states
    hists = [shortest[s] for s in pick] + [second[s] for s in pick if s in second]
    groups = [hists[i::core.NPROC] for i in range(core.NPROC)]
    outs = core.pmap(work_state, [g for g in groups if g])
    master = {}
    for o in outs:
        if 'part' not in o:
            res.add([o])
            continue
        res.add([o['part']])
        for k, text in o['table'].items():
            if k in master and master[k] != text:
                res.agg.violation('text-for-same-effective-settings-differs-between-states',
                                  {'probe': k[0], 'effective': repr(k[1])}, {'a': master[k], 'b': text})
            master.setdefault(k, text)
    # non-vacuity: every setting must be observable through the probes
    blind = []
    for key in ALLKEYS:
        seen = False
        for (vi, eff), text in master.items():
            d = dict(eff)
            for alt in DOM[key]:
                if alt != d[key]:
                    d2 = dict(d)
                    d2[key] = alt
                    other = master.get((vi, freeze(d2)))
                    if other is not None and other != text:
                        seen = True
                        break
            if seen:
                break
        if not seen:
            blind.append(key)
    if blind:
        res.agg.violation('harness-probe-blind-to-setting', {'settings': blind})
    res.agg.nontrivial = len(set(master.values()))
    res.coverage = {
        'states': len(shortest), 'transitions': transitions, 'traces_validated_against_impl': transitions,
        'exhaustive': True,
        'rule': 'all %d default-config states x all %d set_default_config operations executed on the real module; '
                'observation vector (3 probes x 729 explicit/default combinations x 9 entry-point calls) in %d of the '
                'states%s, each also from a second history; non-trivial = distinct output texts observed'
                % (len(shortest), len(allops), len(pick), '' if tier != 'quick' else ' (pristine, all-b, seed-rotated third)'),
        'states_observed': len(pick), 'second_histories': sum(1 for s in pick if s in second),
        'reference_table_entries': len(master),
        'samples': [{'history': shortest[states[-1]]}, {'explicit': {'width': 20, 'depth': 1}, 'probe': 0},
                    {'history': second.get(states[1], [])}],
    }
    res.assumptions = ['the text for fully explicit settings is the reference for those effective settings (and must '
                       'be identical in every state); its own correctness is the business of C01-C11']
    return res


def replay(case):
    fixtures.register()
    ensure_shape_printer()
    part = core.Part()
    if 'op' in case:
        pp, model = replay_to(case['history'])
        ret = pp.set_default_config(**case['op'])
        model.update(case['op'])
        ok = dict(pp.get_default_config()) == model and dict(ret) == model
        pristine_module()
        return ok, 'after %s + %s: get_default_config()=%r model=%r' % (case['history'], case['op'], dict(ret), model)
    observe_state(case.get('history', []), part, {})
    mine = [v for v in part.violations if 'probe' not in case or v['case'].get('probe') == case.get('probe')]
    lines = ['history: %s' % case.get('history')]
    for v in mine[:5]:
        lines.append('violation kind=%s case=%s detail=%s' % (v['kind'], v['case'], v['detail']))
    return not mine, '\n'.join(lines)
