"""C02 - string and bytes literals are reproduced exactly, however they are split.

Enumeration 1 (optional sub-check, when the helpers are importable): every str/bytes over the
adversarial alphabet up to a length bound x max_len 1..8 x both quotes through str_to_lines and
escape_str_for_quote.
Enumeration 2: through pformat - all short strings over the alphabet, all sequences of chunks
(lengths up to ~55 so that every splitter branch is reached), a code-point sweep and long scaled
families x six placements x every width from 1 to len+14 x ribbons.
Oracle on the token stream: the literal is a run of adjacent STRING tokens, every piece carries the
bytes prefix iff the value is bytes, no empty piece (unless the value is empty: exactly one), the
concatenation of the evaluated pieces equals the value and has its type, and the whole output
evaluates to the placement's skeleton.
"""
import ast
import importlib
import itertools
import tokenize

from .. import core, oracles

PROPERTY = 'C02'
LEVEL = 'exploration'

SIGMA = ["'", '"', '\\', ' ', '\n', 'a', '\xe9', '\0']
CHUNKS = ['a', 'aaaa', 'aaaaaaaaaaa', ' ', '   ', '\n', "'", '"', '\\', '\xe9', '\0', '-', '/']
PLACEMENTS = ('top', 'sole', 'many', 'key', 'val', 'arg')


class Call:
    def __init__(self, a):
        self.a = a

    def __eq__(self, other):
        return type(other) is Call and oracles.canon(other.a) == oracles.canon(self.a)

    def __hash__(self):
        return 1


_registered = []


def ensure_registered():
    if not _registered:
        from prettyprinter import register_pretty, pretty_call

        @register_pretty(Call)
        def pretty_callobj(v, ctx):
            return pretty_call(ctx, Call, v.a)
        _registered.append(1)


def place(s, where):
    if where == 'top':
        return s
    if where == 'sole':
        return [s]
    if where == 'many':
        return [1, s, 2]
    if where == 'key':
        return {s: 1}
    if where == 'val':
        return {'k': s}
    return Call(s)


import mc as _mc
NS = {'Call': Call, 'mc': _mc}


def literal_pieces(text, where):
    """-> (pieces, adjacent) STRING tokens of the value literal."""
    toks = oracles.tokens(text)
    idx = [i for i, t in enumerate(toks) if t.type == tokenize.STRING]
    if where == 'val':
        idx = idx[1:]           # the first STRING is the key 'k'
    if not idx:
        return [], True
    between = toks[idx[0]:idx[-1] + 1]
    adjacent = all(t.type in (tokenize.STRING, tokenize.NL, tokenize.NEWLINE, tokenize.INDENT, tokenize.DEDENT)
                   for t in between)
    return [toks[i].string for i in idx], adjacent


def check_print(s, where, cfg, part, cache):
    part.n += 1
    v = place(s, where)
    case = {'value': repr(s), 'placement': where, 'config': cfg}
    try:
        with core.deadline(10):
            r = oracles.run_pformat(v, **cfg)
    except core.Timeout:
        part.violation('timeout', case, 'pformat did not return within 10 s')
        return
    if r.exc is not None:
        part.violation('exception', case, r.exc)
        return
    if r.warnings:
        part.violation('warning', case, r.warnings[:1])
        return
    text = r.text
    verdict = cache.get(text)
    if verdict is None:
        verdict = judge(s, where, text)
        cache[text] = verdict
    if verdict[0] != 'ok':
        part.violation(verdict[0], case, {'output': text, 'why': verdict[1]})
    if verdict[2] > 1:
        part.nontrivial += 1
        part.c['split_prints'] += 1
        if len(part.samples) < 2 and verdict[2] >= 3:
            part.sample({'value': repr(s), 'placement': where, 'config': cfg, 'pieces': verdict[2], 'output': text})


def judge(s, where, text):
    """-> (kind, why, number_of_pieces)"""
    isb = isinstance(s, bytes)
    try:
        pieces, adjacent = literal_pieces(text, where)
    except Exception as e:     # noqa
        return ('not-tokenizable', '%s: %s' % (type(e).__name__, e), 0)
    n = len(pieces)
    if not adjacent:
        return ('pieces-not-adjacent', pieces, n)
    if n == 0:
        return ('literal-missing', None, 0)
    for p in pieces:
        if (p[:1] in 'bB') != isb:
            return ('bytes-prefix', p, n)
    try:
        vals = [ast.literal_eval(p) for p in pieces]
    except Exception as e:     # noqa
        return ('piece-not-evaluable', '%s: %s' % (type(e).__name__, e), n)
    if len(s) == 0:
        if n != 1:
            return ('empty-value-pieces', pieces, n)
    elif any(len(x) == 0 for x in vals):
        return ('empty-piece', pieces, n)
    joined = (b'' if isb else '').join(vals)
    if type(joined) is not type(s) or joined != s:
        return ('concatenation-differs', repr(joined)[:200], n)
    try:
        got = oracles.eval_in(text, NS)
    except Exception as e:     # noqa
        return ('not-evaluable', '%s: %s' % (type(e).__name__, e), n)
    exp = place(s, where)
    if where == 'arg':
        if not (got == exp):
            return ('skeleton-differs', repr(got)[:200], n)
    elif not oracles.typed_eq(got, exp):
        return ('skeleton-differs', repr(got)[:200], n)
    return ('ok', None, n)


def widths_for(s, mode):
    top = min(len(s), 60) + 14
    ws = list(range(1, top + 1))
    for w in ws:
        rs = (w,) if mode == 'wonly' else sorted({1, (w + 1) // 2, w})
        for r in rs:
            yield {'width': w, 'ribbon_width': r}
    yield {'width': 79, 'ribbon_width': 71}
    yield {'width': 200, 'ribbon_width': 200}


def both(s0):
    yield s0
    try:
        yield s0.encode('latin-1')
    except UnicodeEncodeError:
        pass


def check_string(s0, part, mode, placements=PLACEMENTS):
    for s in both(s0):
        for where in placements:
            cache = {}
            for cfg in widths_for(s, mode):
                check_print(s, where, cfg, part, cache)
    part.c['strings'] += 1


# ----------------------------------------------------------------------------- enumeration 1

def splitter_chunk(item):
    _, alphabet, length, lo, hi, pattern_src = item
    part = core.Part()
    try:
        pp = importlib.import_module('prettyprinter.prettyprinter')
        str_to_lines, escape = pp.str_to_lines, pp.escape_str_for_quote
    except (ImportError, AttributeError):
        part.c['splitter_subcheck_skipped'] += 1
        return part
    import re
    for combo in itertools.islice(itertools.product(alphabet, repeat=length), lo, hi):
        s0 = ''.join(combo)
        for s in both(s0):
            isb = isinstance(s, bytes)
            pattern = None
            if pattern_src:
                pattern = re.compile(pattern_src.encode() if isb else pattern_src)
            for q in ("'", '"'):
                part.n += 1
                case = {'value': repr(s), 'quote': q}
                try:
                    e = escape(q, s)
                    lit = ('b' if isb else '') + q + e + q
                    if ast.literal_eval(lit) != s:
                        part.violation('escape-differs', case, lit)
                except Exception as ex:     # noqa
                    part.violation('escape-exception', case, '%s: %s' % (type(ex).__name__, ex))
                for m in range(1, 9):
                    part.n += 1
                    case = {'value': repr(s), 'quote': q, 'max_len': m, 'pattern': pattern_src}
                    out = []
                    try:
                        with core.deadline(5):
                            for piece in str_to_lines(m, q, s, pattern):
                                out.append(piece)
                                if len(out) > len(s) + 1:
                                    raise OverflowError('more pieces than characters')
                    except core.Timeout:
                        part.violation('splitter-timeout', case, None)
                        continue
                    except Exception as ex:     # noqa
                        part.violation('splitter-exception', case, '%s: %s' % (type(ex).__name__, ex))
                        continue
                    if any(len(p) == 0 for p in out):
                        part.violation('splitter-empty-piece', case, repr(out))
                    if (b'' if isb else '').join(out) != s:
                        part.violation('splitter-join-differs', case, repr(out))
                    if len(out) > 1:
                        part.nontrivial += 1
    return part


# ----------------------------------------------------------------------------- enumeration 2

def sweep_codepoints():
    cps = list(range(0, 0x250)) + [0x2028, 0x2029, 0x3000, 0xD800, 0xDFFF, 0xFFFD, 0xFFFF, 0x10000, 0x1F600, 0x10FFFF]
    for cp in cps:
        yield chr(cp)


def families():
    for unit in ('aaaa ', "\xe9\"", "\\'", 'a-b/c', '\n', '\0\x07', "'\"", 'a' * 9 + ' ', ' ', '\t \n'):
        for n in (10, 40, 100):
            yield unit * n
    yield 'a' * 300
    yield ('x' * 20 + '/') * 10
    yield ''.join(chr(c) for c in range(256))


def work(item):
    ensure_registered()
    kind = item[0]
    if kind == 'splitter':
        return splitter_chunk(item)
    part = core.Part()
    if kind == 'sigma':
        _, length, lo, hi, mode = item
        for combo in itertools.islice(itertools.product(SIGMA, repeat=length), lo, hi):
            check_string(''.join(combo), part, mode)
    elif kind == 'chunks':
        _, length, lo, hi, mode = item
        for combo in itertools.islice(itertools.product(CHUNKS, repeat=length), lo, hi):
            # sequences whose concatenation was already produced by a shorter/earlier sequence are
            # still printed: the enumeration is over sequences, cheap enough not to deduplicate
            check_string(''.join(combo), part, mode)
    elif kind == 'codepoints':
        _, lo, hi = item
        for ch in itertools.islice(sweep_codepoints(), lo, hi):
            for s0 in (ch, 'a' + ch + 'a', ch * 12):
                for s in both(s0):
                    for where in ('top', 'sole', 'key'):
                        cache = {}
                        for w in (1, 12, 30, 79):
                            check_print(s, where, {'width': w, 'ribbon_width': w}, part, cache)
    elif kind == 'families':
        _, lo, hi = item
        for s0 in itertools.islice(families(), lo, hi):
            for s in both(s0):
                for where in PLACEMENTS:
                    cache = {}
                    for w in (1, 2, 5, 10, 11, 12, 13, 20, 40, 79, 200):
                        for r in sorted({1, (w + 1) // 2, w}):
                            check_print(s, where, {'width': w, 'ribbon_width': r}, part, cache)
    return part


def plan(tier, seed):
    items, desc = [], []
    q = tier == 'quick'
    for length in range(0, (5 if q else 6) + 1):
        total = len(SIGMA) ** length
        for lo, hi in core.chunks(total, 1 if total < 1000 else 48):
            items.append(('splitter', SIGMA, length, lo, hi, None))
    desc.append('str_to_lines/escape_str_for_quote: all str+bytes over %r up to length %d x max_len 1..8 x 2 quotes' % (SIGMA, 5 if q else 6))
    path_sigma = ['a', '/', ' ', "'"]
    try:        # the pattern the path printer really uses, when it can be found
        path_pattern = importlib.import_module('prettyprinter.pretty_stdlib').pathstr_split_pattern.pattern
    except (ImportError, AttributeError):
        path_pattern = '(/+)'
    for length in range(0, 7):
        items.append(('splitter', path_sigma, length, 0, 10 ** 9, path_pattern))
    desc.append('same with the path printer\'s pattern %r over %r up to length 6' % (path_pattern, path_sigma))
    for length in range(0, (4 if q else 5) + 1):
        total = len(SIGMA) ** length
        for lo, hi in core.chunks(total, 1 if total < 500 else 64):
            items.append(('sigma', length, lo, hi, 'wonly' if length >= 4 else 'ribbons'))
    desc.append('pformat: all str+bytes over the alphabet up to length %d x 6 placements x widths 1..len+14' % (4 if q else 5))
    for length in range(1, (3 if q else 4) + 1):
        total = len(CHUNKS) ** length
        for lo, hi in core.chunks(total, 1 if total < 200 else (128 if q else 512)):
            items.append(('chunks', length, lo, hi, 'ribbons' if length <= 2 else ('wonly' if q else 'ribbons' if length == 3 else 'wonly')))
    desc.append('pformat: all sequences of <= %d chunks from %r x 6 placements x widths 1..len+14' % (3 if q else 4, CHUNKS))
    if q:
        # seed-rotated slice of the 4-chunk sequences
        total = len(CHUNKS) ** 4
        width = 640
        lo = (seed % (total // width)) * width
        for a, b in core.chunks(width, 32):
            items.append(('chunks', 4, lo + a, lo + b, 'wonly'))
        desc.append('pformat: 4-chunk sequences slice [%d, %d) chosen by seed' % (lo, lo + width))
    ncp = sum(1 for _ in sweep_codepoints())
    for lo, hi in core.chunks(ncp, 16):
        items.append(('codepoints', lo, hi))
    desc.append('pformat: %d code points (0..0x24f, line separators, surrogates, astral) alone, embedded and repeated' % ncp)
    nf = sum(1 for _ in families())
    for lo, hi in core.chunks(nf, nf):
        items.append(('families', lo, hi))
    desc.append('pformat: %d long scaled families (10/40/100 repetitions of adversarial units)' % nf)
    return items, desc


def run(tier, seed):
    ensure_registered()
    res = core.Result(PROPERTY, LEVEL, tier, seed)
    items, desc = plan(tier, seed)
    res.add(core.pmap(work, items))
    a = res.agg
    res.coverage = {
        'exhaustive': True,
        'rule': 'strings/byte strings enumerated completely per space below; every (string, placement, width, '
                'ribbon) is one case; non-trivial = prints/splits that produced more than one literal piece',
        'spaces': desc, 'strings_through_pformat': a.c['strings'], 'split_prints': a.c['split_prints'],
        'splitter_subcheck_skipped': a.c['splitter_subcheck_skipped'],
    }
    res.assumptions = ['tokenize / ast.literal_eval define what a string literal piece is']
    return res


def replay(case):
    ensure_registered()
    part = core.Part()
    s = ast.literal_eval(case['value'])
    if 'placement' in case:
        check_print(s, case['placement'], case['config'], part, {})
        r = oracles.run_pformat(place(s, case['placement']), **case['config'])
        lines = ['value: %s placement: %s config: %s' % (case['value'], case['placement'], case['config']),
                 'output:', str(r.text), 'exc: %s warnings: %s' % (r.exc, r.warnings)]
    else:
        pp = importlib.import_module('prettyprinter.prettyprinter')
        import re
        pat = case.get('pattern')
        if pat:
            pat = re.compile(pat.encode() if isinstance(s, bytes) else pat)
        lines = ['value: %s' % case['value']]
        try:
            if 'max_len' in case:
                out = list(itertools.islice(pp.str_to_lines(case['max_len'], case['quote'], s, pat), len(s) + 2))
                lines.append('str_to_lines -> %r' % out)
                if any(len(p) == 0 for p in out) or (b'' if isinstance(s, bytes) else '').join(out) != s:
                    part.violation('splitter', case)
            else:
                e = pp.escape_str_for_quote(case['quote'], s)
                lines.append('escape -> %r' % e)
                lit = ('b' if isinstance(s, bytes) else '') + case['quote'] + e + case['quote']
                if ast.literal_eval(lit) != s:
                    part.violation('escape', case)
        except Exception as ex:     # noqa
            part.violation('exception', case, repr(ex))
    for x in part.violations:
        lines.append('violation kind=%s detail=%s' % (x['kind'], x['detail']))
    return not part.violations, '\n'.join(lines)
