"""C06 part 2: a value whose unbounded rendering is one line of L columns prints as that line at
every width and ribbon_width >= L (checked at L..L+2, 2L, 200, all combinations)."""
import itertools

from .. import core, oracles, corpus, fixtures


def check_value(label, v, part):
    base, L = oracles.one_line(v)
    if base.text is None or L is None or L == 0:
        return
    desc = {'kind': label, 'value': (oracles.expr_of(v) if label == 'tree' else repr(v))[:160], 'one_line_length': L}
    ws = sorted({L, L + 1, L + 2, 2 * L, 200} | ({79} if L <= 79 else set()))
    ws = [w for w in ws if w >= L]
    for w in ws:
        for r in ws:
            part.n += 1
            part.c['value_prints'] += 1
            res = oracles.run_pformat(v, width=w, ribbon_width=r)
            if res.text != base.text:
                part.violation('one-line-value-broken-although-it-fits', dict(desc, config={'width': w, 'ribbon_width': r}),
                               {'output': res.text, 'one_line': base.text, 'exc': res.exc})
    # the same document laid out twice: narrow first, then wide enough.  Whatever the first layout left on
    # the document (lazily normalised branches, evaluated contextual parts) must not make the second break.
    try:
        import importlib
        pp = importlib.import_module('prettyprinter.prettyprinter')
        from prettyprinter.layout import layout_smart
        from prettyprinter.render import default_render_to_str
        ctx = pp.PrettyContext(indent=4, depth_left=float('inf'), max_seq_len=1000, sort_dict_keys=False)
        doc = pp.pretty_python_value(v, ctx)
        if not pp.is_commented(doc):
            for w0 in (max(1, L // 3), max(1, L - 1)):
                default_render_to_str(layout_smart(doc, width=w0, ribbon_frac=1.0))
                part.n += 1
                part.c['value_prints'] += 1
                again = default_render_to_str(layout_smart(doc, width=L, ribbon_frac=1.0))
                if again != base.text:
                    part.violation('document-laid-out-narrow-then-wide-stays-broken', dict(desc, config={'first_width': w0, 'then_width': L}),
                                   {'output': again, 'one_line': base.text})
    except (ImportError, AttributeError, TypeError):
        part.c['doc_reuse_subcheck_skipped'] += 1
    breaks = 0
    for w in (L - 1, L - 2):
        if w >= 1:
            res = oracles.run_pformat(v, width=w, ribbon_width=w)
            part.c['value_prints'] += 1
            if res.text != base.text:
                breaks += 1
    if breaks:
        part.nontrivial += 1
    part.c['one_line_values'] += 1


def work(item):
    fixtures.register()
    tree_nodes, lo, hi = item
    part = core.Part()
    for label, v in corpus.materialised(tree_nodes)[lo:hi]:
        check_value(label, v, part)
    return part


def run_into(res, tier, seed):
    fixtures.register()
    tree_nodes = 3
    total = len(corpus.materialised(tree_nodes))
    res.add(core.pmap(work, [(tree_nodes, lo, hi) for lo, hi in core.chunks(total, 192)]))
    return {'corpus_values': total, 'one_line_values': res.agg.c['one_line_values'], 'prints': res.agg.c['value_prints']}


def replay(case):
    fixtures.register()
    part = core.Part()
    for label, v in corpus.everything(3):
        d = (oracles.expr_of(v) if label == 'tree' else repr(v))[:160]
        if label == case['kind'] and d == case['value']:
            check_value(label, v, part)
            break
    lines = ['case: %s' % case]
    for x in part.violations:
        lines.append('violation kind=%s case=%s detail=%s' % (x['kind'], x['case'].get('config'), x['detail']))
    return not part.violations, '\n'.join(lines)
