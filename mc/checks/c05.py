"""C05 - a group laid out on one line never overflows the page or the ribbon.

Exhaustive over the classic algebra (text, concat, nest, group, LINE, SOFTLINE, HARDLINE,
always_break, align) up to a node bound x every integer (width, ribbon) pair x both strategies.
The flat/broken decision of every group is recovered from the output through the reference
layout set: a group is *necessarily flat* if it is flat in every assignment whose rendering equals
the observed output.  For such a group the output line it starts on must end within
min(width, group indentation + ribbon width).
"""
import itertools

from .. import core, docalg
from . import _decisions as D

PROPERTY = 'C05'
LEVEL = 'model_checking'


def check_term(term, part, want=('c05',), configs=None):
    doc = docalg.build(term)
    ls = docalg.layout_set(term)
    interesting = False
    for (width, frac, _r) in (configs if configs is not None else docalg.config_lattice(term)):
        rw = docalg.ribbon_width(width, frac)
        for sname, layout in D.strategies():
            part.n += 1
            case = {'term': term, 'show': docalg.show(term), 'width': width, 'frac': frac, 'strategy': sname}
            try:
                tokens = docalg.observe(layout(doc, width=width, ribbon_frac=frac))
            except Exception as e:     # noqa
                part.violation('layout-exception', case, '%s: %s' % (type(e).__name__, e))
                continue
            part.c['tokens'] += len(tokens)
            rs = ls.get(tokens)
            if rs is None:
                # membership is C04's business; without a consistent assignment no decision can be
                # recovered, which for this property means the claim cannot be established
                part.violation('not-a-member', case, {'observed': docalg.tokens_text(tokens)})
                continue
            dec = D.decisions(rs)
            for path, v in dec.items():
                part.c['groups_' + v] += 1
                if v != 'flat':
                    continue
                interesting = True
                part.c['flat_group_checks'] += 1
                ok, detail = False, None
                for r in rs:
                    g = next(x for x in r.groups if x.path == path and x.kind == 'group')
                    fits, e = D.flat_fits(r, g, tokens, width, rw)
                    if fits:
                        ok = True
                        break
                    detail = {'group_path': list(path), 'group_indent': g.indent, 'line_end': e,
                              'width': width, 'ribbon_width': rw, 'observed': docalg.tokens_text(tokens)}
                if not ok:
                    part.violation('flat-group-overflows', case, detail)
    if interesting:
        part.nontrivial += 1
        if len(part.samples) < 2:
            part.sample({'term': docalg.show(term)})


def work(item):
    if item[0] == 'scaled':
        part = core.Part()
        for term, configs in D.scaled_documents()[item[1]:item[2]]:
            check_term(term, part, configs=configs)
            part.c['scaled_terms'] += 1
        return part
    if item[0] == 'many':
        part = core.Part()
        D.check_many_groups(part, PROPERTY)
        return part
    if item[0] == 'wrap':
        part = core.Part()
        a = D.alphabet()
        with core.deadline(3600):
            for term in itertools.islice(a.gen(item[1]), item[2], item[3]):
                for v in docalg.wrap_variants(term, 'rctx'):
                    check_term(v, part)
                    part.c['reentrant_contextual_terms'] += 1
        return part
    n, lo, hi = item
    part = core.Part()
    a = D.alphabet()
    with core.deadline(3600):
        for term in itertools.islice(a.gen(n), lo, hi):
            check_term(term, part)
            part.c['terms'] += 1
    return part


def plan(tier, seed):
    a = D.alphabet()
    k = 6 if tier == 'quick' else 7
    items, desc = [], []
    for n in range(1, k):
        a.terms(n)
    for n in range(1, k + 1):
        total = sum(1 for _ in a.gen(n))
        for lo, hi in core.chunks(total, 1 if total < 2000 else 128):
            items.append((n, lo, hi))
        desc.append('classic algebra size %d: %d terms' % (n, total))
    if tier == 'quick':
        a.terms(6)
        total = sum(1 for _ in a.gen(7))
        width = 4000
        lo = (seed % (total // width)) * width
        items.append((7, lo, lo + width))
        desc.append('classic algebra size 7: slice [%d, %d) chosen by seed' % (lo, lo + width))
    kw = 5 if tier == 'quick' else 6
    nw = 0
    for n in range(1, kw + 1):
        total = sum(1 for _ in a.gen(n))
        nw += total
        for lo, hi in core.chunks(total, 1 if total < 500 else 96):
            items.append(('wrap', n, lo, hi))
    desc.append('re-entrant contextual: every classic-algebra term of size <= %d (%d terms) with each single '
                'subterm position in turn wrapped in a contextual whose function runs a complete unrelated '
                'layout before returning the subterm' % (kw, nw))
    items.append(('many',))
    desc.append('many-groups family: 3 / 400 / 700 small independent groups in one top-level sequence (more than 1000 pending '
                'documents) x %d (width, ribbon) settings, against the closed form of that family' % (len(D.many_groups_configs()) // 3))
    ns = len(D.scaled_documents())
    items += [('scaled', i, i + 1) for i in range(ns)]
    desc.append('%d scaled documents (one group around 50..700 words, plain / nested / followed by text) at widths around their flat length and far above 1000 columns' % ns)
    return items, desc


def run(tier, seed):
    res = core.Result(PROPERTY, LEVEL, tier, seed)
    items, desc = plan(tier, seed)
    res.add(core.pmap(work, items))
    a = res.agg
    res.coverage = {
        'states': a.n, 'transitions': a.c['tokens'], 'traces_validated_against_impl': a.n,
        'exhaustive': True,
        'rule': 'every classic-algebra term of the stated sizes x every (width, ribbon) pair with '
                '1<=width<=flat length+2, 0<=ribbon<=width (ribbon 0 via a positive fraction that rounds to 0) '
                'plus width 80 x {smart, fast}; state = one execution of the real engine; transition = one '
                'SDoc token; non-trivial = terms with at least one necessarily-flat group',
        'spaces': desc, 'terms': a.c['terms'], 'reentrant_contextual_terms': a.c['reentrant_contextual_terms'],
        'flat_group_checks': a.c['flat_group_checks'],
        'groups_flat': a.c['groups_flat'], 'groups_broken': a.c['groups_broken'],
        'groups_ambiguous': a.c['groups_ambiguous'],
    }
    res.assumptions = ['reference semantics of mc/docalg.py; decisions are recovered, not read from the engine',
                       'ribbon width = round(frac*width) clamped to [0,width] as stated in the anchors']
    return res


def replay(case):
    if case.get('family') == 'many-groups':
        part = core.Part()
        D.check_many_groups(part, PROPERTY)
        mine = [v for v in part.violations if v['case'] == case]
        return not mine, '\n'.join(['case: %s' % case] + ['violation kind=%s detail=%s' % (v['kind'], v['detail']) for v in mine])
    part = core.Part()
    check_term(case['term'], part)
    mine = [v for v in part.violations if v['case'].get('width') == case.get('width')
            and v['case'].get('frac') == case.get('frac') and v['case'].get('strategy') == case.get('strategy')]
    lines = ['term: ' + docalg.show(case['term']), 'config: %s' % {k: case.get(k) for k in ('width', 'frac', 'strategy')}]
    for v in mine:
        lines.append('violation kind=%s detail=%s' % (v['kind'], v['detail']))
    return not mine, '\n'.join(lines)
