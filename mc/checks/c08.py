"""C08 - instances of subclasses of built-in types keep their class.

Exhaustive over: 9 bases x {plain subclass, subclass overriding __repr__/__str__} (+ IntEnum
members for int) x a value alphabet per base (incl. empty, long and splittable strings) x four
placements (top, list element next to a 30-column sibling, dict value after a 1- or 30-column key,
call argument) x every width from 1 to the one-line length + 3 (and 79).
Oracle: the evaluated output is typed-equal to the input (the subclass at its position, the base
value underneath), no warning, no exception.
"""
import itertools

from .. import core, oracles, fixtures
from ..fixtures import Call

PROPERTY = 'C08'
LEVEL = 'exploration'

STR_LENGTHS = (0, 1, 9, 10, 11, 30, 45, 60, 120)


def base_values(base):
    if base in (list, tuple):
        els = [0, 'a', None, (1,), -0.0, []]
        yield base()
        for a in els:
            yield base([a])
        for a, b in itertools.product(els[:4], repeat=2):
            yield base([a, b])
        yield base(range(12))
    elif base in (set, frozenset):
        yield base()
        for a in (0, 'a', None, (1,)):
            yield base([a])
        yield base([1, 2])
        yield base(['a', 1])
    elif base is dict:
        yield {}
        yield {'a': 1}
        yield {1: 'x'}
        yield {'a': 1, 'b': [1]}
        yield {'a': 1, 'b': 2, 'c': 3}
        yield {(1,): {}}
    elif base in (str, bytes):
        out = []
        for n in STR_LENGTHS:
            out.append('a' * n)
            out.append(('ab ' * (n // 3 + 1))[:n])
        out += ["'", '"', '\n', '\xe9', "it's \"q\"", 'a\\b', ' ' * 12, '\0']
        seen = set()
        for s in out:
            if s in seen:
                continue
            seen.add(s)
            yield s if base is str else s.encode('latin-1')
    elif base is int:
        yield from (0, 1, -1, 10 ** 20, -7)
    elif base is float:
        yield from (0.0, -0.0, 1.5, float('inf'), float('-inf'), float('nan'), 1e22, -2.5e-300)


def instances():
    for base, classes in fixtures.SUBCLASSES.items():
        for cls in classes:
            for bv in base_values(base):
                yield cls(bv)
    yield from fixtures.IE


def placements(v):
    yield 'top', v
    yield 'list-sibling', ['x' * 28, v]
    yield 'list-first', [v, 1]
    yield 'dict-val-short-key', {'k': v}
    yield 'dict-val-long-key', {'k' * 30: v}
    yield 'call-arg', Call(v)
    yield 'call-kwarg', Call(1, kw=v)
    from prettyprinter import comment, trailing_comment
    yield 'commented-in-list', [comment(v, 'note'), 1]
    if isinstance(v, (list, tuple, set, dict)):
        yield 'trailing-comment-in-list', [trailing_comment(v, 'more'), 1]
    try:
        hash(v)
    except TypeError:
        return
    yield 'dict-key', {v: 1}
    yield 'set-element', frozenset([v])


def check_instance(v, part):
    ns = fixtures.namespace()
    for pname, placed in placements(v):
        expected_value = [v, 1] if pname in ('commented-in-list', 'trailing-comment-in-list') else placed
        expr = oracles.expr_of(expected_value) + (' # placement: ' + pname if expected_value is not placed else '')
        base, L = oracles.one_line(placed)
        if base.text is None:
            part.n += 1
            part.violation('exception', {'value': expr, 'placement': pname, 'config': {'width': 10 ** 6}}, base.exc)
            continue
        if L is None:
            L = max(len(x) for x in base.text.split('\n'))
        cache = {}
        widths = list(range(1, min(L, 135) + 4)) + [79, 200]
        for w in widths:
            for r in ((w,) if w > 40 else sorted({1, (w + 1) // 2, w})):
                part.n += 1
                cfg = {'width': w, 'ribbon_width': r}
                case = {'value': expr, 'placement': pname, 'config': cfg}
                res = oracles.run_pformat(placed, **cfg)
                if res.exc is not None:
                    part.violation('exception', case, res.exc)
                    continue
                if res.warnings:
                    part.violation('warning', case, res.warnings[:1])
                    continue
                verdict = cache.get(res.text)
                if verdict is None:
                    try:
                        got = oracles.eval_in(res.text, ns)
                    except Exception as e:     # noqa
                        verdict = ('not-evaluable', '%s: %s' % (type(e).__name__, e))
                    else:
                        same = (got == placed) if isinstance(placed, Call) else oracles.typed_eq(got, expected_value)
                        verdict = ('ok', None) if same else ('class-or-value-lost', repr(got)[:200])
                    cache[res.text] = verdict
                if verdict[0] != 'ok':
                    part.violation(verdict[0], case, {'output': res.text, 'why': verdict[1]})
                if '\n' in res.text:
                    part.nontrivial += 1
    part.c['instances'] += 1


def work(item):
    fixtures.register()
    lo, hi = item
    part = core.Part()
    for v in itertools.islice(instances(), lo, hi):
        check_instance(v, part)
        if len(part.samples) < 1:
            part.sample({'instance': oracles.expr_of(v) if not isinstance(v, fixtures.IE) else repr(v)})
    return part


def short_lived_classes(part, rounds):
    """Subclasses that are created, printed and garbage collected one after another: each must be
    printed under its *own* name (anything remembered per class must die with the class)."""
    import gc
    import sys
    mod = sys.modules[fixtures.__name__]
    ns = fixtures.namespace()
    samples = {list: [1, 2], tuple: (1, 2), set: {1}, frozenset: frozenset([1]), dict: {'a': 1}, str: 'abc', bytes: b'abc',
               int: 7, float: 1.5}
    for r in range(rounds):
        for bi, (base, bv) in enumerate(samples.items()):
            name = 'Tmp%s%d' % (base.__name__.capitalize(), r)
            cls = type(name, (base,), {'__module__': fixtures.__name__})
            cls.__qualname__ = name
            setattr(mod, name, cls)
            v = cls(bv)
            part.n += 1
            res = oracles.run_pformat([v, 1], width=30)
            ok = False
            why = res.exc or res.warnings
            if res.ok():
                try:
                    got = oracles.eval_in(res.text, ns)
                    ok = type(got[0]) is cls and base(got[0]) == bv
                    why = repr(got)[:100]
                except Exception as e:     # noqa
                    why = repr(e)[:200]
            if not ok:
                part.violation('short-lived-class-printed-under-another-name', {'class': name, 'base': base.__name__, 'round': r},
                               {'output': res.text, 'why': why})
            delattr(mod, name)
            del cls, v
            gc.collect()
    part.c['short_lived_classes'] += rounds * len(samples)


def run(tier, seed):
    fixtures.register()
    res = core.Result(PROPERTY, LEVEL, tier, seed)
    short_lived_classes(res.agg, 30 if tier == 'quick' else 300)
    total = sum(1 for _ in instances())
    res.add(core.pmap(work, core.chunks(total, 64)))
    a = res.agg
    res.coverage = {
        'exhaustive': True,
        'rule': 'every instance of the subclass family x 9 placements x every width 1..L+3 (+79, 200) x ribbons '
                '{1, w/2, w}; non-trivial = cases whose output has >= 2 lines',
        'instances': total,
        'classes': [c.__name__ for cs in fixtures.SUBCLASSES.values() for c in cs] + ['IE (IntEnum)'],
    }
    res.assumptions = ['typed equality of mc/oracles.py compares the class name and the underlying base value']
    return res


def replay(case):
    fixtures.register()
    ns = fixtures.namespace()
    env = dict(ns)
    env.update({c.__name__: c for cs in fixtures.SUBCLASSES.values() for c in cs})
    env.update({'IE': fixtures.IE})
    src = case['value'].split(' # placement: ')[0]
    placed = eval(src, env)
    expected_value = placed
    if case.get('placement') in ('commented-in-list', 'trailing-comment-in-list'):
        from prettyprinter import comment, trailing_comment
        wrap = comment if case['placement'] == 'commented-in-list' else trailing_comment
        placed = [wrap(placed[0], 'note' if wrap is comment else 'more'), 1]
    r = oracles.run_pformat(placed, **case['config'])
    lines = ['value: %s' % case['value'], 'config: %s' % case['config'], 'output:', str(r.text),
             'exc: %s warnings: %s' % (r.exc, r.warnings)]
    ok = r.exc is None and not r.warnings
    if ok:
        try:
            got = oracles.eval_in(r.text, ns)
            ok = (got == placed) if isinstance(placed, Call) else oracles.typed_eq(got, expected_value)
            lines.append('evaluates to: %r' % (got,))
        except Exception as e:     # noqa
            ok = False
            lines.append('not evaluable: %r' % e)
    return ok, '\n'.join(lines)
