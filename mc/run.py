"""CLI: python -m mc.run <Cxx> [--tier quick|thorough] [--seed N] [--replay FILE]"""
import argparse
import importlib
import json
import os
import sys


def main(argv=None):
    ap = argparse.ArgumentParser()
    ap.add_argument('prop')
    ap.add_argument('--tier', default=os.environ.get('VERIF_TIER') or 'quick', choices=['quick', 'thorough'])
    ap.add_argument('--seed', type=int, default=None)
    ap.add_argument('--replay')
    args = ap.parse_args(argv)
    seed = args.seed
    if seed is None:
        try:
            seed = int(os.environ.get('VERIF_SEED', '0'))
        except ValueError:
            seed = 0
    # own the nondeterminism we can: hash seed, no bytecode written into /repo, guard on
    if os.environ.get('PYTHONHASHSEED') != '0' or os.environ.get('PRETTYPRINTER_VERIF') != '1':
        env = dict(os.environ, PYTHONHASHSEED='0', PYTHONDONTWRITEBYTECODE='1', PRETTYPRINTER_VERIF='1')
        os.execve(sys.executable, [sys.executable, '-m', 'mc.run'] + (argv or sys.argv[1:]), env)
    from . import core
    if core.REPO not in sys.path:
        sys.path.insert(0, core.REPO)
    import prettyprinter
    here = os.path.dirname(os.path.abspath(prettyprinter.__file__))
    assert here.startswith(core.REPO), 'prettyprinter imported from %s, not from %s' % (here, core.REPO)
    mod = importlib.import_module('mc.checks.' + args.prop.lower())
    if args.replay:
        with open(args.replay) as f:
            body = json.load(f)
        ok, text = mod.replay(body['case'])
        print(text)
        print('REPLAY %s property=%s' % ('passes' if ok else 'FAILS', args.prop))
        return 0 if ok else 1
    res = mod.run(args.tier, seed)
    return core.finalize(res)


if __name__ == '__main__':
    sys.exit(main())
