#!/venv/bin/python
"""Run every quick check against a scratch copy of /repo with a (supposedly behaviour-preserving)
patch applied.  Any VIOLATION is either a false alarm of a check or a behaviour change of the patch.
usage: tools/benigncheck.py PATCH NAME [--checks C01,C02,...] [--no-baseline]"""
import argparse, os, shutil, subprocess, sys, tempfile, time
ap = argparse.ArgumentParser(); ap.add_argument('patch'); ap.add_argument('name'); ap.add_argument('--checks', default='')
ap.add_argument('--no-baseline', action='store_true')
a = ap.parse_args()
checks = [c for c in a.checks.split(',') if c] or ['C%02d' % i for i in range(1, 21)]
tmp = tempfile.mkdtemp(prefix='pp_benign_', dir='/var/tmp'); mut = os.path.join(tmp, 'repo')
try:
    subprocess.check_call(['rsync', '-a', '--exclude', '.git', '--exclude', '__pycache__', '/repo/', mut + '/'])
    r = subprocess.run(['patch', '-p1', '-s', '-d', mut, '-i', os.path.abspath(a.patch)], stdout=subprocess.PIPE, stderr=subprocess.STDOUT, text=True)
    if r.returncode:
        print('PATCH FAILED', r.stdout[-400:]); sys.exit(2)
    if not a.no_baseline:
        b = subprocess.run(['/verif/tools/baseline.py', mut], stdout=subprocess.PIPE, stderr=subprocess.STDOUT, text=True)
        print('baseline:', (b.stdout.strip().splitlines() or [''])[0][:120])
    alarms = 0
    for c in checks:
        env = dict(os.environ, VERIF_REPO=mut, VERIF_EVIDENCE_DIR=os.path.join(tmp, 'ev'))
        t0 = time.time()
        r = subprocess.run(['/venv/bin/python', '-m', 'mc.run', c], cwd='/verif', env=env, stdout=subprocess.PIPE, stderr=subprocess.STDOUT, text=True)
        first = [l.strip()[:260] for l in r.stdout.splitlines() if l.startswith('  kind=')][:1]
        summ = [l.strip()[:200] for l in r.stdout.splitlines() if l.strip().startswith('total violating')][:1]
        if r.returncode != 0:
            alarms += 1
            print('%s %s: exit=%d %s %s' % (a.name, c, r.returncode, summ, first))
            if r.returncode not in (0, 1):
                print(r.stdout[-800:])
        else:
            print('%s %s: ok (%ds)' % (a.name, c, time.time() - t0))
    print('%s: %d checks raised an alarm' % (a.name, alarms))
finally:
    shutil.rmtree(tmp, ignore_errors=True)
