#!/venv/bin/python
"""Run the pinned baseline suite against a commit (or the working tree) of /repo in a scratch
worktree outside /repo and /verif, with the verification guard OFF, and compare with BASELINE.json.

usage: tools/baseline.py [<commit>|WORKTREE]   (default HEAD)
exit 0 iff every test of BASELINE.stable_pass passed.
"""
import json, os, shutil, subprocess, sys, tempfile
import xml.etree.ElementTree as ET

rev = sys.argv[1] if len(sys.argv) > 1 else 'HEAD'
base = json.load(open('/root/.vp/BASELINE.json'))
tmp = tempfile.mkdtemp(prefix='pp_baseline_', dir='/var/tmp')
wt = os.path.join(tmp, 'wt')
try:
    if rev == 'WORKTREE' or os.path.isdir(rev):
        src = '/repo' if rev == 'WORKTREE' else rev
        subprocess.check_call(['rsync', '-a', '--exclude', '.git', '--exclude', '__pycache__', src.rstrip('/') + '/', wt + '/'])
    else:
        subprocess.check_call(['git', '-C', '/repo', 'worktree', 'add', '--detach', wt, rev], stdout=subprocess.DEVNULL, stderr=subprocess.DEVNULL)
    junit = os.path.join(tmp, 'junit.xml')
    env = {k: v for k, v in os.environ.items() if k != 'PRETTYPRINTER_VERIF'}
    env['PYTHONDONTWRITEBYTECODE'] = '1'
    p = subprocess.run(['/venv/bin/python', '-m', 'pytest', '-q', '-p', 'no:cacheprovider', '--timeout=900',
                        '--continue-on-collection-errors', '--junitxml=' + junit, '-x' if False else '-ra'],
                       cwd=wt, env=env, stdout=subprocess.PIPE, stderr=subprocess.STDOUT, text=True)
    passed = set()
    for tc in ET.parse(junit).getroot().iter('testcase'):
        if not any(ch.tag in ('failure', 'error', 'skipped') for ch in tc):
            passed.add('%s::%s' % (tc.get('classname'), tc.get('name')))
    missing = [t for t in base['stable_pass'] if t not in passed]
    print('baseline @%s: %d/%d pinned tests pass; extra passing: %s' % (
        rev, len(base['stable_pass']) - len(missing), len(base['stable_pass']),
        sorted(passed - set(base['stable_pass']))))
    if missing:
        print('MISSING:', missing)
        print(p.stdout[-6000:])
    sys.exit(1 if missing else 0)
finally:
    if rev != 'WORKTREE' and not os.path.isdir(rev):
        subprocess.call(['git', '-C', '/repo', 'worktree', 'remove', '--force', wt], stdout=subprocess.DEVNULL, stderr=subprocess.DEVNULL)
    shutil.rmtree(tmp, ignore_errors=True)
