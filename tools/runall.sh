#!/bin/bash
# usage: tools/runall.sh [quick|thorough] [ids...]  - runs the registered checks one after another, prints one line each
tier=${1:-quick}; shift
ids=${@:-C01 C02 C03 C04 C05 C06 C07 C08 C09 C10 C11 C12 C13 C14 C15 C16 C17 C18 C19 C20}
cd "$(dirname "$0")/.."
rc=0
for id in $ids; do
  s=$(date +%s)
  out=$(/venv/bin/python -m mc.run $id --tier $tier 2>&1); code=$?
  e=$(( $(date +%s) - s ))
  echo "$id exit=$code ${e}s $(echo "$out" | grep -E '^(OK|VIOLATION|KNOWN-FINDING)' | cut -c1-160 | tr '\n' ' ')"
  [ $code -ne 0 ] && rc=1
done
exit $rc
