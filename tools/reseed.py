#!/venv/bin/python
"""Re-run the recorded detecting checks against every kept seeded change (regression of detection power).
usage: tools/reseed.py [name-prefix]"""
import glob, json, os, subprocess, sys
pref = sys.argv[1] if len(sys.argv) > 1 else ''
bad = 0
for d in sorted(glob.glob('/verif/seeded/*')):
    n = os.path.basename(d)
    if not n.startswith(pref):
        continue
    m = json.load(open(d + '/meta.json'))
    checks = sorted({k.split('/')[0] for k in m.get('detected_by', [])}) or [m['property']]
    r = subprocess.run(['/verif/tools/seedcheck.py', d, n, m['property'], '--checks', ','.join(checks[:2]), '--no-baseline'],
                       stdout=subprocess.PIPE, stderr=subprocess.STDOUT, text=True)
    line = [l for l in r.stdout.splitlines() if l.startswith(('CONFIRMED', 'NOT'))]
    det = line[0] if line else r.stdout[-200:]
    ok = 'detected by [\'' in det
    bad += 0 if ok else 1
    print(n, 'OK' if ok else 'MISSED', det[:120], flush=True)
print('missed:', bad)
