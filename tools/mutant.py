#!/venv/bin/python
"""Apply a small source edit to a scratch copy of /repo (never to /repo itself), run checks against
it through VERIF_REPO, optionally run the pinned baseline suite on it, and remove the copy.

usage: tools/mutant.py NAME FILE OLD NEW [--checks C05,C06] [--tier quick] [--baseline] [--patch FILE]
       (OLD/NEW are literal strings; with --patch FILE a git diff is applied instead and FILE OLD NEW are '-')
"""
import argparse, os, shutil, subprocess, sys, tempfile

ap = argparse.ArgumentParser()
ap.add_argument('name'); ap.add_argument('file'); ap.add_argument('old'); ap.add_argument('new')
ap.add_argument('--checks', default=''); ap.add_argument('--tier', default='quick')
ap.add_argument('--baseline', action='store_true'); ap.add_argument('--patch')
ap.add_argument('--count', type=int, default=1)
ap.add_argument('--keep', action='store_true')
a = ap.parse_args()
tmp = tempfile.mkdtemp(prefix='pp_mut_', dir='/var/tmp')
wt = os.path.join(tmp, 'repo')
try:
    subprocess.check_call(['rsync', '-a', '--exclude', '.git', '--exclude', '__pycache__', '/repo/', wt + '/'])
    if a.patch:
        subprocess.check_call(['patch', '-p1', '-s', '-d', wt, '-i', os.path.abspath(a.patch)])
    else:
        p = os.path.join(wt, a.file)
        s = open(p).read()
        old = a.old.encode().decode('unicode_escape'); new = a.new.encode().decode('unicode_escape')
        if s.count(old) != a.count:
            print('MUTANT %s: pattern occurs %d times, expected %d' % (a.name, s.count(old), a.count)); sys.exit(2)
        open(p, 'w').write(s.replace(old, new))
    subprocess.check_call(['/venv/bin/python', '-c', 'import sys; sys.path.insert(0, %r); import prettyprinter' % wt])
    results = {}
    for c in [c for c in a.checks.split(',') if c]:
        env = dict(os.environ, VERIF_REPO=wt, VERIF_EVIDENCE_DIR=os.path.join(tmp, 'evidence'))
        r = subprocess.run(['/venv/bin/python', '-m', 'mc.run', c, '--tier', a.tier], cwd='/verif', env=env,
                           stdout=subprocess.PIPE, stderr=subprocess.STDOUT, text=True)
        viol = [l for l in r.stdout.splitlines() if l.startswith('VIOLATION')]
        kinds = [l.strip() for l in r.stdout.splitlines() if l.strip().startswith('total violating')]
        results[c] = (r.returncode, len(viol))
        print('MUTANT %s check %s: exit=%d violation_lines=%d %s' % (a.name, c, r.returncode, len(viol), kinds[:1]))
        if r.returncode not in (0, 1):
            print(r.stdout[-3000:])
        elif r.returncode == 1:
            det = [l for l in r.stdout.splitlines() if l.startswith('  kind=')]
            print('   ', det[0][:300] if det else '')
    if a.baseline:
        r = subprocess.run(['/verif/tools/baseline.py', wt], stdout=subprocess.PIPE, stderr=subprocess.STDOUT, text=True)
        print('MUTANT %s baseline: exit=%d %s' % (a.name, r.returncode, r.stdout.strip().splitlines()[0] if r.stdout.strip() else ''))
        if r.returncode:
            print(r.stdout[-1500:])
finally:
    if a.keep:
        print('kept', wt)
    else:
        shutil.rmtree(tmp, ignore_errors=True)
