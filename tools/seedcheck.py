#!/venv/bin/python
"""Confirm a seeded property-breaking change and run the checks against it.

usage: tools/seedcheck.py SRC_DIR NAME PROPERTY [--checks C01,C03] [--tier quick] [--no-baseline] [--save]

SRC_DIR holds patch.diff, demo.py, notes.md (as produced by a sub-agent).  Steps, all on scratch
copies of /repo outside /repo and /verif (removed afterwards):
  1. patch applies to /repo HEAD and the package still imports;
  2. demo.py exits 1 on the patched copy and 0 on the unpatched copy;
  3. the pinned baseline suite still passes on the patched copy;
  4. the named checks are run against the patched copy (VERIF_REPO) - exit 1 + VIOLATION = detected.
With --save the material is stored under /verif/seeded/NAME/ with a meta.json recording all of it.
"""
import argparse, json, os, shutil, subprocess, sys, tempfile, time

ap = argparse.ArgumentParser()
ap.add_argument('src'); ap.add_argument('name'); ap.add_argument('prop')
ap.add_argument('--checks', default=''); ap.add_argument('--tier', default='quick')
ap.add_argument('--no-baseline', action='store_true'); ap.add_argument('--save', action='store_true')
ap.add_argument('--needs', default='')
ap.add_argument('--no-demo', action='store_true', help='the demo predates a later repair of /repo and no longer runs (e.g. it parks a thread that now holds a lock)')
a = ap.parse_args()
checks = [c for c in (a.checks or a.prop).split(',') if c]
tmp = tempfile.mkdtemp(prefix='pp_seed_', dir='/var/tmp')
clean, mut = os.path.join(tmp, 'clean'), os.path.join(tmp, 'mut')
meta = {'name': a.name, 'property': a.prop, 'needs_to_manifest': a.needs, 'ran': [], 'at': time.strftime('%Y-%m-%d %H:%M')}
ok = True
try:
    for d in (clean, mut):
        subprocess.check_call(['rsync', '-a', '--exclude', '.git', '--exclude', '__pycache__', '/repo/', d + '/'])
    patch = os.path.join(os.path.abspath(a.src), 'patch.diff')
    r = subprocess.run(['patch', '-p1', '-s', '-d', mut, '-i', patch], stdout=subprocess.PIPE, stderr=subprocess.STDOUT, text=True)
    meta['ran'].append('patch -p1 < patch.diff on a copy of /repo HEAD: exit %d' % r.returncode)
    if r.returncode:
        print('PATCH FAILED', r.stdout[-500:]); ok = False
    imp = subprocess.run(['/venv/bin/python', '-c', 'import sys; sys.path.insert(0, %r); import prettyprinter; prettyprinter.pformat([1])' % mut])
    if imp.returncode:
        print('IMPORT FAILED'); ok = False
    demo = os.path.join(os.path.abspath(a.src), 'demo.py')
    if a.no_demo:
        demo = None
        meta['demo_note'] = 'demo not re-run: written against an earlier /repo HEAD'
    env = dict(os.environ, PYTHONDONTWRITEBYTECODE='1')
    d1 = d0 = None
    if demo:
      d1 = subprocess.run(['/venv/bin/python', demo, mut], cwd=tmp, env=env, stdout=subprocess.PIPE, stderr=subprocess.STDOUT, text=True, timeout=600)
      d0 = subprocess.run(['/venv/bin/python', demo, clean], cwd=tmp, env=env, stdout=subprocess.PIPE, stderr=subprocess.STDOUT, text=True, timeout=600)
    if demo:
      meta['demo_exit_with_change'], meta['demo_exit_without_change'] = d1.returncode, d0.returncode
      meta['demo_output_with_change'] = d1.stdout[-600:]
      meta['ran'].append('python demo.py <patched copy>: exit %d; python demo.py <unpatched copy>: exit %d' % (d1.returncode, d0.returncode))
      print('demo: with change exit=%d, without exit=%d' % (d1.returncode, d0.returncode))
      if d1.returncode != 1 or d0.returncode != 0:
        ok = False
        print(d1.stdout[-400:]); print(d0.stdout[-400:])
    if not a.no_baseline:
        b = subprocess.run(['/verif/tools/baseline.py', mut], stdout=subprocess.PIPE, stderr=subprocess.STDOUT, text=True)
        line = b.stdout.strip().splitlines()[0] if b.stdout.strip() else ''
        meta['baseline'] = line
        meta['ran'].append('tools/baseline.py <patched copy> (pinned suite, guard off): exit %d' % b.returncode)
        print('baseline:', line)
        if b.returncode:
            ok = False
            print(b.stdout[-800:])
    meta['checks'] = {}
    for c in checks:
        env = dict(os.environ, VERIF_REPO=mut, VERIF_EVIDENCE_DIR=os.path.join(tmp, 'evidence'))
        t0 = time.time()
        r = subprocess.run(['/venv/bin/python', '-m', 'mc.run', c, '--tier', a.tier], cwd='/verif', env=env,
                           stdout=subprocess.PIPE, stderr=subprocess.STDOUT, text=True)
        viol = [l for l in r.stdout.splitlines() if l.startswith('VIOLATION')]
        kinds = [l.strip() for l in r.stdout.splitlines() if l.strip().startswith('total violating')]
        first = [l.strip()[:300] for l in r.stdout.splitlines() if l.startswith('  kind=')][:1]
        meta['checks']['%s/%s' % (c, a.tier)] = {'exit': r.returncode, 'violation_lines': len(viol), 'summary': kinds[:1], 'first': first,
                                                  'seconds': round(time.time() - t0, 1)}
        meta['ran'].append('VERIF_REPO=<patched copy> python -m mc.run %s --tier %s: exit %d' % (c, a.tier, r.returncode))
        print('check %s %s: exit=%d %s %s' % (c, a.tier, r.returncode, kinds[:1], first))
        if r.returncode not in (0, 1):
            print(r.stdout[-1500:])
    meta['confirmed'] = ok
    meta['detected_by'] = sorted(k for k, v in meta['checks'].items() if v['exit'] == 1 and v['violation_lines'])
    print('CONFIRMED' if ok else 'NOT CONFIRMED', 'detected by', meta['detected_by'])
    if a.save and ok:
        dst = os.path.join('/verif/seeded', a.name)
        os.makedirs(dst, exist_ok=True)
        for f in ('patch.diff', 'demo.py', 'notes.md'):
            if os.path.exists(os.path.join(a.src, f)):
                shutil.copy(os.path.join(a.src, f), os.path.join(dst, f))
        old = {}
        if os.path.exists(os.path.join(dst, 'meta.json')):
            old = json.load(open(os.path.join(dst, 'meta.json')))
            old_checks = old.get('checks', {})
            old_checks.update(meta['checks'])
            meta['checks'] = old_checks
            meta['detected_by'] = sorted(k for k, v in meta['checks'].items() if v['exit'] == 1 and v['violation_lines'])
            if not meta['needs_to_manifest']:
                meta['needs_to_manifest'] = old.get('needs_to_manifest', '')
            if 'baseline' not in meta and 'baseline' in old:
                meta['baseline'] = old['baseline'] + ' (from the first evaluation of this change)'
        json.dump(meta, open(os.path.join(dst, 'meta.json'), 'w'), indent=1)
        print('saved to', dst)
finally:
    shutil.rmtree(tmp, ignore_errors=True)
sys.exit(0 if ok else 2)
